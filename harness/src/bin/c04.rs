//! C04: certificates are accepted exactly when genuinely backed by a quorum.
//!
//! Ops (one committee per case):
//!   {"op":"committee","reset":true,"weights":[..],"first":k,"wseed":s}
//!   {"op":"cqc_verify","qc":ACqc,"label":..}            -> {"ok":bool}
//!   {"op":"tqc_verify","qc":ATqc,"label":..}            -> {"ok":bool}
//!   {"op":"block_verify","payload":id,"qc":ACqc}        -> {"ok":bool}
//!   {"op":"cqc_new","vote":AVote} / {"op":"cqc_add","key":i|null,"sig_ok":b,"vote":AVote} -> {"ok":bool,"signers":[..]}
//!   {"op":"cqc_cur_verify"}                             -> {"ok":bool}
//!   {"op":"tqc_new","view":AView} / {"op":"tqc_add","key":i|null,"sig_ok":b,"tvote":ATVote} -> {"ok":bool,"weight":w}
//!   {"op":"tqc_cur_verify"}                             -> {"ok":bool}
use rand::{seq::SliceRandom, Rng};
use serde_json::{json, Value};
use vharness::{abs::*, catch, certgen::*, Opts, Out, Prop};
use zksync_consensus_roles::validator::{self, v2};

#[derive(Default)]
struct C04 {
    w: Option<World>,
    cur_cqc: Option<v2::CommitQC>,
    cur_tqc: Option<v2::TimeoutQC>,
    /// specification state of the certificate under assembly: (content, signers so far)
    spec_cqc: Option<(AVote, Vec<usize>)>,
    spec_tqc: Option<(AView, Vec<usize>)>,
}

fn sel() -> validator::LeaderSelection {
    validator::LeaderSelection { frequency: 1, mode: validator::LeaderSelectionMode::RoundRobin }
}

fn mk_world(wseed: u64, weights: &[u64], first: u64) -> World {
    // which validators are eligible as leaders is irrelevant for certificates (a vote counts with its weight whoever
    // may lead): odd world seeds use a committee in which only some validators are eligible
    let mut leaders: Vec<bool> = (0..weights.len()).map(|i| wseed % 2 == 0 || (wseed >> (1 + i % 16)) & 1 == 1).collect();
    if !leaders.iter().any(|l| *l) {
        leaders[(wseed as usize / 2) % weights.len()] = true;
    }
    World::new(wseed, weights, &leaders, sel(), first)
}

impl Prop for C04 {
    fn gen(&mut self, opts: &Opts) -> Vec<Value> {
        let mut rng = opts.rng();
        let mut ops = vec![];
        let ncases = if opts.thorough { 40 } else { 6 };
        let per_case = (opts.n / ncases).max(20);
        for case in 0..ncases {
            let weights = if case == 0 { vec![1, 1, 1, 1, 1, 1] } else { random_weights(&mut rng) };
            let n = weights.len();
            let wseed = rng.gen_range(0..1000u64);
            let mut world = mk_world(wseed, &weights, 0);
            ops.push(json!({"op":"committee","reset":true,"weights":weights,"first":0,"wseed":wseed}));
            let subsets: Vec<Vec<usize>> = if opts.thorough && n <= 6 {
                all_subsets(n)
            } else {
                (0..per_case / 12).map(|_| random_subset(&mut rng, &weights)).collect()
            };
            for s in &subsets {
                let vote = random_vote(&mut rng, 6);
                let q = acqc(n, vote, s);
                ops.push(json!({"op":"cqc_verify","qc":q,"label":"wellformed"}));
                let cs = corrupt_cqc(&mut rng, n, &q);
                let take = if opts.thorough { cs.len() } else { 4 };
                for (label, c) in cs.choose_multiple(&mut rng, take) {
                    ops.push(json!({"op":"cqc_verify","qc":c,"label":label}));
                }
                if rng.gen_bool(0.3) {
                    let pid = if rng.gen_bool(0.7) { q.vote.h } else { q.vote.h + 1 };
                    ops.push(json!({"op":"block_verify","payload":pid,"qc":q}));
                }
                // timeout certificate over the same subset
                if !s.is_empty() {
                    let tview = rng.gen_range(0..5);
                    let (_, tq) = world.tqc(&random_tqc(&mut rng, &weights, tview, s));
                    ops.push(json!({"op":"tqc_verify","qc":tq,"label":"wellformed"}));
                    let cs = corrupt_tqc(&mut rng, &weights, &tq);
                    let take = if opts.thorough { cs.len() } else { 4 };
                    for (label, c) in cs.choose_multiple(&mut rng, take) {
                        let (_, c) = world.tqc(c);
                        ops.push(json!({"op":"tqc_verify","qc":c,"label":label}));
                    }
                }
            }
            // incremental assembly
            for _ in 0..(per_case / 40).max(2) {
                let vote = random_vote(&mut rng, 6);
                ops.push(json!({"op":"cqc_new","vote":vote}));
                let mut order: Vec<usize> = (0..n).collect();
                order.shuffle(&mut rng);
                for i in order {
                    match rng.gen_range(0..10) {
                        0 => ops.push(json!({"op":"cqc_add","key":n + 1,"sig_ok":true,"vote":vote})),
                        1 => ops.push(json!({"op":"cqc_add","key":i,"sig_ok":false,"vote":vote})),
                        2 => {
                            let mut other = vote.clone();
                            other.h += 1;
                            ops.push(json!({"op":"cqc_add","key":i,"sig_ok":true,"vote":other}))
                        }
                        3 => {
                            let mut other = vote.clone();
                            other.view.e = 1;
                            ops.push(json!({"op":"cqc_add","key":i,"sig_ok":true,"vote":other}))
                        }
                        _ => {}
                    }
                    ops.push(json!({"op":"cqc_add","key":i,"sig_ok":true,"vote":vote}));
                    if rng.gen_bool(0.2) {
                        ops.push(json!({"op":"cqc_add","key":i,"sig_ok":true,"vote":vote})); // repeated signer
                    }
                    ops.push(json!({"op":"cqc_cur_verify"}));
                }
                let view = rng.gen_range(0..5u64);
                ops.push(json!({"op":"tqc_new","view":aview(view)}));
                let contents: Vec<ATVote> = (0..3).map(|_| random_tvote(&mut rng, &weights, view)).collect();
                let mut order: Vec<usize> = (0..n).collect();
                order.shuffle(&mut rng);
                for i in order {
                    let t = contents.choose(&mut rng).unwrap().clone();
                    match rng.gen_range(0..10) {
                        0 => ops.push(json!({"op":"tqc_add","key":n + 2,"sig_ok":true,"tvote":t})),
                        1 => ops.push(json!({"op":"tqc_add","key":i,"sig_ok":false,"tvote":t})),
                        2 => {
                            let mut other = t.clone();
                            other.view.v += 1;
                            ops.push(json!({"op":"tqc_add","key":i,"sig_ok":true,"tvote":other}))
                        }
                        _ => {}
                    }
                    ops.push(json!({"op":"tqc_add","key":i,"sig_ok":true,"tvote":t}));
                    if rng.gen_bool(0.2) {
                        let t2 = contents.choose(&mut rng).unwrap().clone();
                        ops.push(json!({"op":"tqc_add","key":i,"sig_ok":true,"tvote":t2})); // repeated signer, maybe other content
                    }
                    ops.push(json!({"op":"tqc_cur_verify"}));
                }
            }
        }
        ops
    }

    fn exec(&mut self, op: &Value, out: &mut Out) -> Value {
        let kind = op["op"].as_str().unwrap_or("").to_string();
        out.count(&format!("op={kind}"));
        if kind == "committee" {
            let weights: Vec<u64> = serde_json::from_value(op["weights"].clone()).unwrap();
            self.w = Some(mk_world(op["wseed"].as_u64().unwrap_or(0), &weights, op["first"].as_u64().unwrap_or(0)));
            self.cur_cqc = None;
            self.cur_tqc = None;
            return json!({"ok": true});
        }
        let w = self.w.as_mut().expect("committee first");
        let (g, e, sched) = (w.genesis, w.epoch, w.schedule.clone());
        let weights = w.weights.clone();
        match kind.as_str() {
            "cqc_verify" => {
                let a: ACqc = serde_json::from_value(op["qc"].clone()).unwrap();
                let q = w.cqc(&a);
                match catch(|| q.verify(g, e, &sched).is_ok()) {
                    Ok(ok) => {
                        out.count(&format!("cqc_verify/{}/{}", op["label"].as_str().unwrap_or(""), ok));
                        if ok != spec_cqc_valid(&weights, &a) {
                            out.oracle_fail("CommitQC::verify", "verdict differs from the specification predicate (chain/epoch, distinct members, weight >= quorum, aggregate = exactly those signatures)", op.clone());
                        }
                        json!({"ok": ok})
                    }
                    Err(site) => {
                        out.oracle_fail(&site, "CommitQC::verify panicked", op.clone());
                        json!({"panic": site})
                    }
                }
            }
            "block_verify" => {
                let a: ACqc = serde_json::from_value(op["qc"].clone()).unwrap();
                let q = w.cqc(&a);
                let pid = op["payload"].as_u64().unwrap();
                let b = v2::FinalBlock { payload: w.payload(pid), justification: q };
                match catch(|| b.verify(g, e, &sched).is_ok()) {
                    Ok(ok) => {
                        if ok != (pid == a.vote.h && spec_cqc_valid(&weights, &a)) {
                            out.oracle_fail("FinalBlock::verify", "verdict differs from (payload hash = header hash and certificate valid)", op.clone());
                        }
                        json!({"ok": ok})
                    }
                    Err(site) => {
                        out.oracle_fail(&site, "FinalBlock::verify panicked", op.clone());
                        json!({"panic": site})
                    }
                }
            }
            "tqc_verify" => {
                let a: ATqc = serde_json::from_value(op["qc"].clone()).unwrap();
                let (q, a2) = w.tqc(&a);
                match catch(|| q.verify(g, e, &sched).is_ok()) {
                    Ok(ok) => {
                        out.count(&format!("tqc_verify/{}/{}", op["label"].as_str().unwrap_or(""), ok));
                        if ok != spec_tqc_valid(&weights, &a2) {
                            out.oracle_fail("TimeoutQC::verify", "verdict differs from the specification predicate (same view, non-empty disjoint groups, nested certificates valid, weight >= quorum, aggregate = exactly those signatures)", op.clone());
                        }
                        // proposals and new-view messages are accepted iff their justification is
                        let j = v2::ProposalJustification::Timeout(q.clone());
                        let nv = v2::ReplicaNewView { justification: j.clone() };
                        let lp = v2::LeaderProposal { proposal_payload: None, justification: j };
                        if nv.verify(g, e, &sched).is_ok() != ok || lp.verify(g, e, &sched).is_ok() != ok {
                            out.oracle_fail("ReplicaNewView/LeaderProposal::verify", "verdict differs from the justification's", op.clone());
                        }
                        json!({"ok": ok})
                    }
                    Err(site) => {
                        out.oracle_fail(&site, "TimeoutQC::verify panicked", op.clone());
                        json!({"panic": site})
                    }
                }
            }
            "cqc_new" => {
                let a: AVote = serde_json::from_value(op["vote"].clone()).unwrap();
                let v = w.vote(&a);
                self.cur_cqc = Some(v2::CommitQC::new(v, &sched));
                self.spec_cqc = Some((a, vec![]));
                json!({"ok": true})
            }
            "cqc_add" => {
                let a: AVote = serde_json::from_value(op["vote"].clone()).unwrap();
                let key = op["key"].as_u64().unwrap() as usize;
                let sig_ok = op["sig_ok"].as_bool().unwrap_or(true);
                let v = w.vote(&a);
                let signed = w.signed(key, v2::ChonkyMsg::ReplicaCommit(v), !sig_ok);
                let signed: validator::Signed<v2::ReplicaCommit> = signed.cast().unwrap();
                let q = self.cur_cqc.as_mut().expect("cqc_new first");
                let before = q.clone();
                match catch(|| q.add(&signed, g, e, &sched).is_ok()) {
                    Ok(ok) => {
                        out.count(&format!("cqc_add/{ok}"));
                        let (content, signers) = self.spec_cqc.as_mut().unwrap();
                        // specification: accepted iff member, not yet a signer, signature valid, same vote, vote valid
                        let want = key < weights.len() && !signers.contains(&key) && sig_ok && a == *content && a.view.g == 0 && a.view.e == 0;
                        if want {
                            signers.push(key);
                        }
                        if ok != want {
                            out.oracle_fail("CommitQC::add", "accept/refuse differs from the specification", op.clone());
                        }
                        if !ok && *q != before {
                            out.oracle_fail("CommitQC::add", "a refused vote changed the certificate", op.clone());
                        }
                        json!({"ok": ok, "signers": q.signers.0.iter().collect::<Vec<bool>>()})
                    }
                    Err(site) => {
                        out.oracle_fail(&site, "CommitQC::add panicked", op.clone());
                        json!({"panic": site})
                    }
                }
            }
            "cqc_cur_verify" => {
                let q = self.cur_cqc.as_ref().expect("cqc_new first");
                let ok = q.verify(g, e, &sched).is_ok();
                let (content, signers) = self.spec_cqc.as_ref().unwrap();
                // every certificate assembled from individually valid votes that reach the quorum verifies
                let want = content.view.g == 0 && content.view.e == 0 && weight_of(&weights, signers) >= quorum(&weights);
                if ok != want {
                    out.oracle_fail("CommitQC::add+verify", "assembled certificate: verify differs from (weight of accepted signers >= quorum)", op.clone());
                }
                json!({"ok": ok})
            }
            "tqc_new" => {
                let a: AView = serde_json::from_value(op["view"].clone()).unwrap();
                let v = w.view(&a);
                self.cur_tqc = Some(v2::TimeoutQC::new(v));
                self.spec_tqc = Some((a, vec![]));
                json!({"ok": true})
            }
            "tqc_add" => {
                let a: ATVote = serde_json::from_value(op["tvote"].clone()).unwrap();
                let key = op["key"].as_u64().unwrap() as usize;
                let sig_ok = op["sig_ok"].as_bool().unwrap_or(true);
                let t = w.tvote(&a);
                let signed = w.signed(key, v2::ChonkyMsg::ReplicaTimeout(t), !sig_ok);
                let signed: validator::Signed<v2::ReplicaTimeout> = signed.cast().unwrap();
                let q = self.cur_tqc.as_mut().expect("tqc_new first");
                let before = q.clone();
                match catch(|| q.add(&signed, g, e, &sched).is_ok()) {
                    Ok(ok) => {
                        out.count(&format!("tqc_add/{ok}"));
                        let (view, signers) = self.spec_tqc.as_mut().unwrap();
                        let want = key < weights.len() && !signers.contains(&key) && sig_ok && a.view == *view && spec_tvote_valid(&weights, &a);
                        if want {
                            signers.push(key);
                        }
                        if ok != want {
                            out.oracle_fail("TimeoutQC::add", "accept/refuse differs from the specification", op.clone());
                        }
                        if !ok && *q != before {
                            out.oracle_fail("TimeoutQC::add", "a refused vote changed the certificate", op.clone());
                        }
                        let wt = catch(|| q.weight(&sched));
                        match wt {
                            Ok(wt) => {
                                if wt != weight_of(&weights, signers) {
                                    out.oracle_fail("TimeoutQC::weight", "weight differs from the sum over distinct accepted signers", op.clone());
                                }
                                json!({"ok": ok, "weight": wt})
                            }
                            Err(site) => json!({"panic": site}),
                        }
                    }
                    Err(site) => {
                        out.oracle_fail(&site, "TimeoutQC::add panicked", op.clone());
                        json!({"panic": site})
                    }
                }
            }
            "tqc_cur_verify" => {
                let q = self.cur_tqc.as_ref().expect("tqc_new first");
                let ok = q.verify(g, e, &sched).is_ok();
                let (view, signers) = self.spec_tqc.as_ref().unwrap();
                let want = view.g == 0 && view.e == 0 && weight_of(&weights, signers) >= quorum(&weights);
                if ok != want {
                    out.oracle_fail("TimeoutQC::add+verify", "assembled certificate: verify differs from (weight of accepted signers >= quorum)", op.clone());
                }
                json!({"ok": ok})
            }
            _ => json!({"bad_op": true}),
        }
    }
}

fn main() {
    vharness::main_for(&mut C04::default());
}
