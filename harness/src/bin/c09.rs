//! C09: protobuf wire encoding is lossless and canonical.
//!
//! Operation families (see `lean/Driver/C09.lean` for the model side):
//!   canon (named schema / synthetic table)  `zksync_protobuf::canonical_raw`
//!   schema / names                          the prost-reflect view of every `.proto` message under /repo/node
//!   bitvec, bitvec_read, duration, timestamp, duration_read, sockaddr, sockaddr_read   std_conv.rs
//!   tqc, schedule, muxhs                    conversions whose order is not structural
//! Typed values (`ty` + `seed` on a canon op) are re-generated in `exec` and checked by the value monitors
//! (decode∘encode = id, canonical = encode, any valid re-serialisation decodes to the same value, hashes).
#![allow(clippy::type_complexity)]
use std::collections::{BTreeMap, BTreeSet};

use bit_vec::BitVec;
use once_cell::sync::Lazy;
use prost::Message as _;
use rand::{rngs::StdRng, seq::SliceRandom, Rng, SeedableRng};
use serde_json::{json, Value};
use vharness::{catch, Opts, Out, Prop};
use zksync_concurrency::{limiter, time};
use zksync_consensus_crypto::{keccak256::Keccak256, ByteFmt};
use zksync_consensus_engine::{BlockStoreState, Last, Transaction};
use zksync_consensus_network::verif::wire::{self, WireValue, W};
use zksync_consensus_roles::{node, proto::validator as vproto, validator, validator::v2};
use zksync_protobuf::{
    build::prost_reflect::{
        prost_types, DescriptorPool, DynamicMessage, FieldDescriptor, Kind, MessageDescriptor, Syntax,
    },
    canonical_raw, ProtoFmt,
};

// ---------------------------------------------------------------------------------------------
// bytes, hex, varints
// ---------------------------------------------------------------------------------------------

fn hx(b: &[u8]) -> String {
    hex::encode(b)
}

fn unhx(v: &Value) -> Vec<u8> {
    hex::decode(v.as_str().expect("hex string")).expect("hex")
}

fn varint_len(mut v: u64) -> usize {
    let mut n = 1;
    while v >= 128 {
        v >>= 7;
        n += 1;
    }
    n
}

/// Base-128 little endian; `extra` additional continuation bytes (`0x80 … 0x00`) that keep the value.
fn put_varint(out: &mut Vec<u8>, mut v: u64, extra: usize) {
    debug_assert!(varint_len(v) + extra <= 10);
    while v >= 128 {
        out.push((v & 0x7f) as u8 | 0x80);
        v >>= 7;
    }
    if extra == 0 {
        out.push(v as u8);
    } else {
        out.push(v as u8 | 0x80);
        for _ in 0..extra - 1 {
            out.push(0x80);
        }
        out.push(0);
    }
}

/// Own varint reader (at most 10 bytes, bits beyond 64 dropped).
fn get_varint(b: &[u8], pos: &mut usize) -> Option<u64> {
    let mut v: u64 = 0;
    for i in 0..10 {
        let x = *b.get(*pos)?;
        *pos += 1;
        if i < 9 || (x & 0x7f) <= 1 {
            v |= ((x & 0x7f) as u64) << (7 * i);
        } else {
            v |= ((x & 1) as u64) << 63;
        }
        if x < 128 {
            return Some(v);
        }
    }
    None
}

fn pick<T: Clone>(rng: &mut StdRng, xs: &[T]) -> T {
    xs[rng.gen_range(0..xs.len())].clone()
}

fn trunc(s: String, n: usize) -> String {
    if s.len() <= n {
        s
    } else {
        let mut e = n;
        while !s.is_char_boundary(e) {
            e -= 1;
        }
        format!("{}…", &s[..e])
    }
}

// ---------------------------------------------------------------------------------------------
// descriptors: the global pool + the .proto files that are not compiled into any library
// ---------------------------------------------------------------------------------------------

/// (virtual path = `proto_root`/relative path as in the crate's build.rs, file on disk)
const EXTRA_PROTOS: &[(&str, &str)] = &[
    ("zksync/protobuf/tests/tests.proto", "/repo/node/libs/protobuf/src/tests/proto/tests.proto"),
    (
        "zksync/protobuf/conformance_test/conformance.proto",
        "/repo/node/libs/protobuf/examples/conformance_test/proto/conformance.proto",
    ),
    (
        "zksync/protobuf/conformance_test/test_messages_proto3.proto",
        "/repo/node/libs/protobuf/examples/conformance_test/proto/test_messages_proto3.proto",
    ),
    ("zksync/network/mux/tests/mod.proto", "/repo/node/components/network/src/mux/tests/proto/mod.proto"),
    ("zksync/tools/mod.proto", "/repo/node/tools/src/proto/mod.proto"),
];

fn load_pool() -> DescriptorPool {
    // Forcing the network descriptor forces its dependencies (roles, protobuf) first.
    let _ = &*zksync_protobuf::proto::DESCRIPTOR;
    let _ = &*zksync_consensus_roles::proto::DESCRIPTOR;
    let base = zksync_consensus_network::proto::DESCRIPTOR
        .get_message_by_name("zksync.std.Void")
        .expect("zksync.std.Void")
        .parent_pool()
        .clone();
    let mut set = prost_types::FileDescriptorSet::default();
    set.file.extend(base.file_descriptor_protos().cloned());
    let mut paths = vec![];
    for (vpath, file) in EXTRA_PROTOS {
        let src = std::fs::read_to_string(file).unwrap_or_else(|e| panic!("{file}: {e}"));
        let compiled = protox::file::File::from_source(vpath, &src).unwrap_or_else(|e| panic!("{file}: {e:?}"));
        set.file.push(compiled.into());
        paths.push(vpath.to_string());
    }
    let mut compiler = protox::Compiler::with_file_resolver(protox::file::DescriptorSetFileResolver::new(set));
    compiler.open_files(paths).unwrap_or_else(|e| panic!("protox: {e:?}"));
    let mut pool = base;
    pool.add_file_descriptor_set(compiler.file_descriptor_set()).expect("add compiled files");
    pool
}

/// `impl From<prost_reflect::Kind> for Wire`, as a name.
fn kind_name(k: &Kind) -> &'static str {
    match k {
        Kind::Int32
        | Kind::Int64
        | Kind::Uint32
        | Kind::Uint64
        | Kind::Sint32
        | Kind::Sint64
        | Kind::Bool
        | Kind::Enum(_) => "varint",
        Kind::Fixed64 | Kind::Sfixed64 | Kind::Double => "fixed64",
        Kind::Fixed32 | Kind::Sfixed32 | Kind::Float => "fixed32",
        Kind::String | Kind::Bytes => "bytes",
        Kind::Message(_) => "msg",
    }
}

fn is_proto3(m: &MessageDescriptor) -> bool {
    m.parent_file().syntax() == Syntax::Proto3
}

fn sorted_fields(m: &MessageDescriptor) -> Vec<FieldDescriptor> {
    let mut fs: Vec<_> = m.fields().collect();
    fs.sort_by_key(|f| f.number());
    fs
}

fn schema_obs(m: &MessageDescriptor) -> Value {
    let fields: Vec<Value> = sorted_fields(m)
        .iter()
        .map(|f| {
            let k = f.kind();
            let sub = match &k {
                Kind::Message(s) => json!(s.full_name()),
                _ => Value::Null,
            };
            json!({"num": f.number(), "kind": kind_name(&k), "sub": sub, "repeated": f.is_list(),
                   "presence": f.supports_presence(), "map": f.is_map()})
        })
        .collect();
    json!({"known": true, "proto3": is_proto3(m), "fields": fields})
}

// ---------------------------------------------------------------------------------------------
// synthetic schemas (hand-built FileDescriptorSets): what the repository's schemas do not cover
// ---------------------------------------------------------------------------------------------

mod syn {
    use super::prost_types::{
        field_descriptor_proto::{Label, Type},
        DescriptorProto, EnumDescriptorProto, EnumValueDescriptorProto, FieldDescriptorProto, FileDescriptorProto,
        FileDescriptorSet, MessageOptions, OneofDescriptorProto,
    };

    pub fn fld(name: &str, num: i32, label: Label, ty: Type, type_name: Option<&str>) -> FieldDescriptorProto {
        FieldDescriptorProto {
            name: Some(name.into()),
            number: Some(num),
            label: Some(label as i32),
            r#type: Some(ty as i32),
            type_name: type_name.map(|s| s.to_string()),
            ..Default::default()
        }
    }

    /// message with `fields`; `optional` = names of the fields declared `optional` (proto3 synthetic oneof),
    /// `oneofs` = (oneof name, member names).
    pub fn msg(name: &str, mut fields: Vec<FieldDescriptorProto>, optional: &[&str], oneofs: &[(&str, &[&str])]) -> DescriptorProto {
        let mut decls = vec![];
        // real oneofs first (protoc order), then the synthetic ones
        for (oname, members) in oneofs {
            let idx = decls.len() as i32;
            decls.push(OneofDescriptorProto { name: Some(oname.to_string()), options: None });
            for f in fields.iter_mut() {
                if members.contains(&f.name()) {
                    f.oneof_index = Some(idx);
                }
            }
        }
        for f in fields.iter_mut() {
            if optional.contains(&f.name()) {
                let idx = decls.len() as i32;
                decls.push(OneofDescriptorProto { name: Some(format!("_{}", f.name())), options: None });
                f.oneof_index = Some(idx);
                f.proto3_optional = Some(true);
            }
        }
        DescriptorProto { name: Some(name.into()), field: fields, oneof_decl: decls, ..Default::default() }
    }

    fn enum_e() -> EnumDescriptorProto {
        EnumDescriptorProto {
            name: Some("E".into()),
            value: (0..3)
                .map(|i| EnumValueDescriptorProto { name: Some(format!("E{i}")), number: Some(i), options: None })
                .collect(),
            ..Default::default()
        }
    }

    /// syn1: every repeated scalar flavour, repeated bytes/string/messages, recursion, big field numbers, empty message.
    pub fn syn1() -> FileDescriptorSet {
        use Label::{Optional as O, Repeated as R};
        let s = ".syn.a.Scalars";
        let fields = vec![
            fld("ru64", 1, R, Type::Uint64, None),
            fld("rs32", 2, R, Type::Sint32, None),
            fld("rb", 3, R, Type::Bool, None),
            fld("re", 4, R, Type::Enum, Some(".syn.a.E")),
            fld("rf64", 5, R, Type::Fixed64, None),
            fld("rd", 6, R, Type::Double, None),
            fld("rf32", 7, R, Type::Fixed32, None),
            fld("rfl", 8, R, Type::Float, None),
            fld("rsf32", 9, R, Type::Sfixed32, None),
            fld("rsf64", 10, R, Type::Sfixed64, None),
            fld("ri32", 11, R, Type::Int32, None),
            fld("rby", 12, R, Type::Bytes, None),
            fld("rs", 13, R, Type::String, None),
            fld("ou", 14, O, Type::Uint64, None),
            fld("ob", 15, O, Type::Bytes, None),
            fld("of32", 16, O, Type::Fixed32, None),
            fld("of64", 17, O, Type::Fixed64, None),
            fld("rec", 18, R, Type::Message, Some(s)),
            fld("oe", 19, O, Type::Message, Some(".syn.a.Empty")),
            fld("mid", 2048, O, Type::Sint64, None),
            fld("ri64", 70000, R, Type::Int64, None),
            fld("big", 536870911, R, Type::Uint32, None),
        ];
        let scalars = msg("Scalars", fields, &["ou", "ob", "of32", "of64", "oe", "mid"], &[]);
        let empty = msg("Empty", vec![], &[], &[]);
        FileDescriptorSet {
            file: vec![FileDescriptorProto {
                name: Some("syn/a.proto".into()),
                package: Some("syn.a".into()),
                syntax: Some("proto3".into()),
                message_type: vec![empty, scalars],
                enum_type: vec![enum_e()],
                ..Default::default()
            }],
        }
    }

    /// syn2: implicit presence, map, oneof, recursion, a proto2 file and a proto3 message that embeds them.
    pub fn syn2() -> FileDescriptorSet {
        use Label::{Optional as O, Repeated as R, Required as Q};
        let implicit = msg(
            "Implicit",
            vec![
                fld("x", 1, O, Type::Uint64, None),
                fld("y", 2, O, Type::Uint64, None),
                fld("s", 3, O, Type::String, None),
                fld("r", 4, R, Type::Uint64, None),
                fld("m", 5, O, Type::Message, Some(".syn.b.Leaf")),
                fld("f", 6, O, Type::Fixed32, None),
            ],
            &["y"],
            &[],
        );
        let leaf = msg("Leaf", vec![fld("v", 1, O, Type::Uint64, None)], &["v"], &[]);
        let mut entry = msg(
            "MEntry",
            vec![fld("key", 1, O, Type::Uint32, None), fld("value", 2, O, Type::Bytes, None)],
            &[],
            &[],
        );
        entry.options = Some(MessageOptions { map_entry: Some(true), ..Default::default() });
        let mut with_map = msg(
            "WithMap",
            vec![fld("m", 1, R, Type::Message, Some(".syn.b.WithMap.MEntry")), fld("a", 2, O, Type::Uint64, None)],
            &["a"],
            &[],
        );
        with_map.nested_type = vec![entry];
        let one_of = msg(
            "OneOf",
            vec![
                fld("a", 1, O, Type::Uint64, None),
                fld("b", 2, O, Type::Bytes, None),
                fld("c", 3, O, Type::Message, Some(".syn.b.Leaf")),
                fld("d", 4, O, Type::Fixed32, None),
                fld("e", 5, O, Type::Bool, None),
            ],
            &["e"],
            &[("t", &["a", "b", "c", "d"])],
        );
        let rec = msg(
            "Rec",
            vec![
                fld("next", 1, O, Type::Message, Some(".syn.b.Rec")),
                fld("kids", 2, R, Type::Message, Some(".syn.b.Rec")),
                fld("v", 3, O, Type::Uint64, None),
                fld("w", 4, R, Type::Sint64, None),
            ],
            &["v"],
            &[],
        );
        let holder = msg(
            "Holder",
            vec![
                fld("i", 1, O, Type::Message, Some(".syn.b.Implicit")),
                fld("w", 2, O, Type::Message, Some(".syn.b.WithMap")),
                fld("o", 3, O, Type::Message, Some(".syn.b.OneOf")),
                fld("r", 4, R, Type::Message, Some(".syn.b.Rec")),
                fld("p2", 5, O, Type::Message, Some(".syn.p2.P2")),
                fld("n", 6, O, Type::Uint64, None),
            ],
            &["n"],
            &[],
        );
        let p2 = msg(
            "P2",
            vec![
                fld("a", 1, O, Type::Uint64, None),
                fld("r", 2, R, Type::Uint64, None),
                fld("b", 3, Q, Type::Bytes, None),
            ],
            &[],
            &[],
        );
        FileDescriptorSet {
            file: vec![
                FileDescriptorProto {
                    name: Some("syn/p2.proto".into()),
                    package: Some("syn.p2".into()),
                    syntax: None, // proto2
                    message_type: vec![p2],
                    ..Default::default()
                },
                FileDescriptorProto {
                    name: Some("syn/b.proto".into()),
                    package: Some("syn.b".into()),
                    syntax: Some("proto3".into()),
                    dependency: vec!["syn/p2.proto".into()],
                    message_type: vec![leaf, implicit, with_map, one_of, rec, holder],
                    ..Default::default()
                },
            ],
        }
    }
}

/// One synthetic pool together with the table the model sees.
struct SynPool {
    key: &'static str,
    msgs: Vec<MessageDescriptor>,
    table: Value,
}

impl SynPool {
    fn new(key: &'static str, set: prost_types::FileDescriptorSet) -> Self {
        let pool = DescriptorPool::from_file_descriptor_set(set).unwrap_or_else(|e| panic!("synthetic pool {key}: {e}"));
        let msgs: Vec<MessageDescriptor> = pool.all_messages().collect();
        let index: BTreeMap<String, usize> = msgs.iter().enumerate().map(|(i, m)| (m.full_name().to_string(), i)).collect();
        let table: Vec<Value> = msgs
            .iter()
            .map(|m| {
                let fields: Vec<Value> = m
                    .fields()
                    .map(|f| {
                        let k = f.kind();
                        let mut o = json!({"num": f.number(), "kind": kind_name(&k), "repeated": f.is_list(),
                                           "presence": f.supports_presence(), "map": f.is_map()});
                        if let Kind::Message(s) = &k {
                            o["sub"] = json!(index[s.full_name()]);
                        }
                        o
                    })
                    .collect();
                json!({"name": m.full_name(), "proto3": is_proto3(m), "fields": fields})
            })
            .collect();
        Self { key, msgs, table: Value::Array(table) }
    }
}

// ---------------------------------------------------------------------------------------------
// generic message trees: own descriptor-driven TLV parser, canonical writer and re-serialiser
// ---------------------------------------------------------------------------------------------

#[derive(Clone, Copy, PartialEq, Eq, Debug)]
enum WT {
    Varint,
    I64,
    Len,
    I32,
}

impl WT {
    fn raw(self) -> u64 {
        match self {
            WT::Varint => 0,
            WT::I64 => 1,
            WT::Len => 2,
            WT::I32 => 5,
        }
    }
    fn of(k: &Kind) -> WT {
        match kind_name(k) {
            "varint" => WT::Varint,
            "fixed64" => WT::I64,
            "fixed32" => WT::I32,
            _ => WT::Len,
        }
    }
}

#[derive(Clone, Debug)]
enum GV {
    V(u64),
    F8([u8; 8]),
    F4([u8; 4]),
    B(Vec<u8>),
    M(GMsg),
}

/// One TLV: a single value, or a packed chunk of scalar values.
#[derive(Clone, Debug)]
struct Occ {
    num: u32,
    packed: bool,
    vals: Vec<GV>,
}

/// A message as the sequence of its TLVs in wire order.
#[derive(Clone, Debug, Default)]
struct GMsg {
    occ: Vec<Occ>,
}

fn read_scalar(b: &[u8], pos: &mut usize, w: WT) -> Result<GV, String> {
    match w {
        WT::Varint => get_varint(b, pos).map(GV::V).ok_or_else(|| "varint".to_string()),
        WT::I64 => {
            let s = b.get(*pos..*pos + 8).ok_or("eof")?;
            *pos += 8;
            Ok(GV::F8(s.try_into().unwrap()))
        }
        WT::I32 => {
            let s = b.get(*pos..*pos + 4).ok_or("eof")?;
            *pos += 4;
            Ok(GV::F4(s.try_into().unwrap()))
        }
        WT::Len => Err("scalar expected".into()),
    }
}

fn read_len<'a>(b: &'a [u8], pos: &mut usize) -> Result<&'a [u8], String> {
    let n = get_varint(b, pos).ok_or("len")? as usize;
    let s = b.get(*pos..pos.checked_add(n).ok_or("len overflow")?).ok_or("eof")?;
    *pos += n;
    Ok(s)
}

/// Parses a *valid* serialisation of a message of type `desc`.
fn parse_msg(b: &[u8], desc: &MessageDescriptor) -> Result<GMsg, String> {
    let mut pos = 0;
    let mut m = GMsg::default();
    while pos < b.len() {
        let tag = get_varint(b, &mut pos).ok_or("tag")?;
        let num = (tag >> 3) as u32;
        let f = desc.get_field(num).ok_or_else(|| format!("unknown field {num}"))?;
        let kind = f.kind();
        let fw = WT::of(&kind);
        let got = tag & 7;
        if got == fw.raw() {
            let v = match (&kind, fw) {
                (Kind::Message(sub), _) => GV::M(parse_msg(read_len(b, &mut pos)?, sub)?),
                (_, WT::Len) => GV::B(read_len(b, &mut pos)?.to_vec()),
                (_, w) => read_scalar(b, &mut pos, w)?,
            };
            m.occ.push(Occ { num, packed: false, vals: vec![v] });
        } else if got == 2 {
            let chunk = read_len(b, &mut pos)?;
            let mut p = 0;
            let mut vals = vec![];
            while p < chunk.len() {
                vals.push(read_scalar(chunk, &mut p, fw)?);
            }
            m.occ.push(Occ { num, packed: true, vals });
        } else {
            return Err(format!("field {num}: wire type {got}"));
        }
    }
    Ok(m)
}

/// Does the message (at any nesting level) carry more than one member of some `oneof`? Such a buffer is accepted by
/// protobuf parsers ("last member seen wins") but is not the serialisation of any message value; `canonical_raw`
/// re-orders the members by field number, so the member a parser sees afterwards may be a different one.
fn several_oneof_members(m: &GMsg, desc: &MessageDescriptor) -> bool {
    let mut seen: BTreeMap<String, BTreeSet<u32>> = BTreeMap::new();
    for o in &m.occ {
        let Some(f) = desc.get_field(o.num) else { continue };
        if let Some(oo) = f.containing_oneof() {
            seen.entry(oo.name().to_string()).or_default().insert(o.num);
        }
        if let Kind::Message(sub) = f.kind() {
            for v in &o.vals {
                if let GV::M(g) = v {
                    if several_oneof_members(g, &sub) {
                        return true;
                    }
                }
            }
        }
    }
    seen.values().any(|s| s.len() > 1)
}

fn put_scalar(out: &mut Vec<u8>, v: &GV, pad: &mut dyn FnMut(usize) -> usize) {
    match v {
        GV::V(x) => {
            let e = pad(varint_len(*x));
            put_varint(out, *x, e)
        }
        GV::F8(x) => out.extend_from_slice(x),
        GV::F4(x) => out.extend_from_slice(x),
        _ => unreachable!("scalar"),
    }
}

/// The expected canonical encoding, written by the harness' own writer: ascending field numbers, scalar field
/// with 1 value = one TLV, with more = one packed TLV, LEN fields one TLV per value, sub-messages canonical.
fn canon_bytes(m: &GMsg, desc: &MessageDescriptor) -> Vec<u8> {
    let mut by: BTreeMap<u32, Vec<&GV>> = BTreeMap::new();
    for o in &m.occ {
        by.entry(o.num).or_default().extend(o.vals.iter());
    }
    let mut out = vec![];
    let mut nopad = |_: usize| 0usize;
    for (num, vals) in by {
        let f = desc.get_field(num).expect("field");
        let kind = f.kind();
        let fw = WT::of(&kind);
        if fw == WT::Len {
            for v in vals {
                put_varint(&mut out, ((num as u64) << 3) | 2, 0);
                let payload = match (v, &kind) {
                    (GV::M(s), Kind::Message(sd)) => canon_bytes(s, sd),
                    (GV::B(b), _) => b.clone(),
                    _ => unreachable!("len value"),
                };
                put_varint(&mut out, payload.len() as u64, 0);
                out.extend_from_slice(&payload);
            }
        } else if vals.len() == 1 {
            put_varint(&mut out, ((num as u64) << 3) | fw.raw(), 0);
            put_scalar(&mut out, vals[0], &mut nopad);
        } else if vals.len() > 1 {
            put_varint(&mut out, ((num as u64) << 3) | 2, 0);
            let mut chunk = vec![];
            for v in vals {
                put_scalar(&mut chunk, v, &mut nopad);
            }
            put_varint(&mut out, chunk.len() as u64, 0);
            out.extend_from_slice(&chunk);
        }
    }
    out
}

#[derive(Clone, Copy, PartialEq, Eq)]
enum Pack {
    Keep,
    Unpack,
    Repack,
}

#[derive(Clone, Copy)]
struct Style {
    shuffle: bool,
    pad: bool,
    pack: Pack,
}

fn style_of(fam: &str) -> Style {
    match fam {
        "shuffle" => Style { shuffle: true, pad: false, pack: Pack::Keep },
        "pad" => Style { shuffle: false, pad: true, pack: Pack::Keep },
        "unpack" => Style { shuffle: false, pad: false, pack: Pack::Unpack },
        "repack" => Style { shuffle: false, pad: false, pack: Pack::Repack },
        _ => Style { shuffle: true, pad: true, pack: Pack::Repack },
    }
}

/// Re-serialises `m` (a valid message of type `desc`) as another valid serialisation of the same value.
fn emit(m: &GMsg, desc: &MessageDescriptor, st: Style, rng: &mut StdRng) -> Vec<u8> {
    // 1. packing
    let mut occs: Vec<Occ> = vec![];
    match st.pack {
        Pack::Keep => occs = m.occ.clone(),
        Pack::Unpack => {
            for o in &m.occ {
                if o.packed {
                    occs.extend(o.vals.iter().map(|v| Occ { num: o.num, packed: false, vals: vec![v.clone()] }));
                } else {
                    occs.push(o.clone());
                }
            }
        }
        Pack::Repack => {
            let mut done: BTreeSet<u32> = BTreeSet::new();
            for o in &m.occ {
                let f = desc.get_field(o.num).expect("field");
                let scalar_list = f.is_list() && WT::of(&f.kind()) != WT::Len;
                if !scalar_list {
                    occs.push(o.clone());
                    continue;
                }
                if !done.insert(o.num) {
                    continue;
                }
                let all: Vec<GV> = m.occ.iter().filter(|x| x.num == o.num).flat_map(|x| x.vals.iter().cloned()).collect();
                let mut i = 0;
                while i < all.len() {
                    if rng.gen_bool(0.4) {
                        occs.push(Occ { num: o.num, packed: false, vals: vec![all[i].clone()] });
                        i += 1;
                    } else {
                        let n = rng.gen_range(1..=(all.len() - i).min(4));
                        occs.push(Occ { num: o.num, packed: true, vals: all[i..i + n].to_vec() });
                        i += n;
                    }
                }
            }
        }
    }
    // 2. order: random interleaving that keeps the relative order of the occurrences of each field
    if st.shuffle {
        let mut queues: BTreeMap<u32, std::collections::VecDeque<Occ>> = BTreeMap::new();
        for o in occs.drain(..) {
            queues.entry(o.num).or_default().push_back(o);
        }
        let mut keys: Vec<u32> = queues.keys().copied().collect();
        while !keys.is_empty() {
            let i = rng.gen_range(0..keys.len());
            let q = queues.get_mut(&keys[i]).unwrap();
            occs.push(q.pop_front().unwrap());
            if q.is_empty() {
                keys.swap_remove(i);
                keys.sort();
            }
        }
    }
    // 3. bytes
    let mut out = vec![];
    for o in &occs {
        let f = desc.get_field(o.num).expect("field");
        let kind = f.kind();
        let fw = WT::of(&kind);
        let mut pad = |len: usize| -> usize {
            if st.pad && rng.gen_bool(0.5) {
                rng.gen_range(0..=10 - len)
            } else {
                0
            }
        };
        let wt = if o.packed { 2 } else { fw.raw() };
        let tag = ((o.num as u64) << 3) | wt;
        let e = pad(varint_len(tag));
        put_varint(&mut out, tag, e);
        if o.packed {
            let mut chunk = vec![];
            for v in &o.vals {
                put_scalar(&mut chunk, v, &mut pad);
            }
            let e = pad(varint_len(chunk.len() as u64));
            put_varint(&mut out, chunk.len() as u64, e);
            out.extend_from_slice(&chunk);
        } else {
            match (&o.vals[0], &kind) {
                (GV::M(s), Kind::Message(sd)) => {
                    let payload = emit(s, sd, st, rng);
                    let mut pad = |len: usize| -> usize {
                        if st.pad && rng.gen_bool(0.5) {
                            rng.gen_range(0..=10 - len)
                        } else {
                            0
                        }
                    };
                    let e = pad(varint_len(payload.len() as u64));
                    put_varint(&mut out, payload.len() as u64, e);
                    out.extend_from_slice(&payload);
                }
                (GV::B(b), _) => {
                    let e = pad(varint_len(b.len() as u64));
                    put_varint(&mut out, b.len() as u64, e);
                    out.extend_from_slice(b);
                }
                (v, _) => put_scalar(&mut out, v, &mut pad),
            }
        }
    }
    out
}

// --- random generic values -----------------------------------------------------------------

fn gen_varint_value(rng: &mut StdRng) -> u64 {
    match rng.gen_range(0..12) {
        0 => 0,
        1 => 1,
        2 => 127,
        3 => 128,
        4 => 16383,
        5 => 16384,
        6 => u32::MAX as u64,
        7 => 1 << 32,
        8 => 1 << 63,
        9 => u64::MAX,
        _ => rng.gen::<u64>() >> rng.gen_range(0..64),
    }
}

fn gen_value(kind: &Kind, rng: &mut StdRng, depth: usize, valid: bool) -> GV {
    match kind {
        Kind::Message(sub) => GV::M(gen_tree(sub, rng, depth + 1, valid)),
        k => match WT::of(k) {
            WT::Varint => GV::V(gen_varint_value(rng)),
            WT::I64 => GV::F8(rng.gen()),
            WT::I32 => GV::F4(rng.gen()),
            WT::Len => {
                let n = if rng.gen_bool(0.2) { 0 } else { rng.gen_range(0..=40) };
                GV::B((0..n).map(|_| rng.gen()).collect())
            }
        },
    }
}

/// Random value of message type `desc`, one `Occ` per value in ascending field order (i.e. *not yet* packed);
/// `valid` = respect what canonical encoding supports (proto3, no maps, no implicit presence, singular fields once,
/// at most one member of a oneof).
fn gen_tree(desc: &MessageDescriptor, rng: &mut StdRng, depth: usize, valid: bool) -> GMsg {
    let fields = sorted_fields(desc);
    let budget = if depth == 0 { 10.0 } else { 4.0 };
    let p = (budget / fields.len().max(1) as f64).min(0.7);
    let mut used_oneofs: BTreeSet<String> = BTreeSet::new();
    let mut m = GMsg::default();
    for f in &fields {
        if !rng.gen_bool(p) {
            continue;
        }
        let kind = f.kind();
        if let Kind::Message(sub) = &kind {
            if depth >= 3 || (valid && !is_proto3(sub)) {
                continue;
            }
        }
        if valid && (f.is_map() || (!f.is_list() && !f.supports_presence())) {
            continue;
        }
        if let Some(o) = f.containing_oneof() {
            if valid && !used_oneofs.insert(o.name().to_string()) {
                continue;
            }
        }
        let repeated = f.is_list() || f.is_map();
        let n = if repeated {
            rng.gen_range(1..=4)
        } else if !valid && rng.gen_bool(0.15) {
            2
        } else {
            1
        };
        for _ in 0..n {
            m.occ.push(Occ { num: f.number(), packed: false, vals: vec![gen_value(&kind, rng, depth, valid)] });
        }
    }
    m
}

/// Is every message reachable from `desc` canonically encodable at all (proto3)? Used to pick the schemas of the
/// valid generic families.
fn has_repeated_scalar(desc: &MessageDescriptor) -> bool {
    desc.fields().any(|f| f.is_list() && WT::of(&f.kind()) != WT::Len)
}

// --- mutations -------------------------------------------------------------------------------

/// Top-level TLV spans `(start, end, tag)` of a well-formed buffer (None if it is not well-formed).
fn scan_tlvs(b: &[u8]) -> Option<Vec<(usize, usize, u64)>> {
    let mut pos = 0;
    let mut v = vec![];
    while pos < b.len() {
        let start = pos;
        let tag = get_varint(b, &mut pos)?;
        match tag & 7 {
            0 => {
                get_varint(b, &mut pos)?;
            }
            1 => pos += 8,
            5 => pos += 4,
            2 => {
                let n = get_varint(b, &mut pos)? as usize;
                pos = pos.checked_add(n)?;
            }
            _ => return None,
        }
        if pos > b.len() {
            return None;
        }
        v.push((start, pos, tag));
    }
    Some(v)
}

fn random_payload(wt: u64, rng: &mut StdRng) -> Vec<u8> {
    let mut out = vec![];
    match wt {
        0 => put_varint(&mut out, gen_varint_value(rng), 0),
        1 => out.extend_from_slice(&rng.gen::<[u8; 8]>()),
        5 => out.extend_from_slice(&rng.gen::<[u8; 4]>()),
        2 => {
            let n = rng.gen_range(0..6);
            put_varint(&mut out, n, 0);
            out.extend((0..n).map(|_| rng.gen::<u8>()));
        }
        _ => out.extend((0..rng.gen_range(0..4)).map(|_| rng.gen::<u8>())),
    }
    out
}

/// A mutation of a valid buffer; returns the family name and the bytes. Model and code only have to agree.
fn mutate(b: &[u8], desc: &MessageDescriptor, rng: &mut StdRng, depth: usize) -> (String, Vec<u8>) {
    let tlvs = scan_tlvs(b).unwrap_or_default();
    // sometimes go one level down
    if depth < 3 && rng.gen_bool(0.35) {
        let nested: Vec<_> = tlvs
            .iter()
            .filter(|(_, _, tag)| {
                tag & 7 == 2 && matches!(desc.get_field((tag >> 3) as u32).map(|f| f.kind()), Some(Kind::Message(_)))
            })
            .collect();
        if !nested.is_empty() {
            let (s, e, tag) = **nested.choose(rng).unwrap();
            let Some(Kind::Message(sub)) = desc.get_field((tag >> 3) as u32).map(|f| f.kind()) else { unreachable!() };
            let mut pos = s;
            get_varint(b, &mut pos);
            let payload = read_len(b, &mut pos).unwrap();
            let (fam, inner) = mutate(payload, &sub, rng, depth + 1);
            let mut out = b[..s].to_vec();
            put_varint(&mut out, tag, 0);
            put_varint(&mut out, inner.len() as u64, 0);
            out.extend_from_slice(&inner);
            out.extend_from_slice(&b[e..]);
            return (format!("{fam}@nested"), out);
        }
    }
    let fields = sorted_fields(desc);
    let mut out = b.to_vec();
    let at_boundary = |rng: &mut StdRng| -> usize {
        if tlvs.is_empty() || rng.gen_bool(0.3) {
            b.len()
        } else {
            tlvs[rng.gen_range(0..tlvs.len())].0
        }
    };
    for _attempt in 0..8 {
        match rng.gen_range(0..10) {
            0 if !b.is_empty() => {
                let i = rng.gen_range(0..b.len());
                out[i] ^= 1 << rng.gen_range(0..8);
                return ("mut:bitflip".into(), out);
            }
            1 if !b.is_empty() => {
                out.truncate(rng.gen_range(0..b.len()));
                return ("mut:truncate".into(), out);
            }
            2 => {
                // unknown field number
                let known: BTreeSet<u32> = fields.iter().map(|f| f.number()).collect();
                let mut num = pick(rng, &[0u32, 1, 2, 3, 15, 16, 100, 19000, 536870911, 536870912]);
                while known.contains(&num) {
                    num += 1;
                }
                let wt = pick(rng, &[0u64, 1, 2, 5]);
                let mut tlv = vec![];
                put_varint(&mut tlv, ((num as u64) << 3) | wt, 0);
                tlv.extend(random_payload(wt, rng));
                let at = at_boundary(rng);
                out.splice(at..at, tlv);
                return ("mut:unknown-field".into(), out);
            }
            3 => {
                // duplicate the TLV of a singular field
                let cand: Vec<_> = tlvs
                    .iter()
                    .filter(|(_, _, tag)| desc.get_field((tag >> 3) as u32).map_or(false, |f| !f.is_list() && !f.is_map()))
                    .collect();
                if let Some(&&(s, e, _)) = cand.choose(rng) {
                    let tlv = b[s..e].to_vec();
                    let at = at_boundary(rng);
                    out.splice(at..at, tlv);
                    return ("mut:dup-singular".into(), out);
                }
            }
            4 => {
                // change the wire type in a tag, payload kept
                if let Some(&(s, _, tag)) = tlvs.choose(rng) {
                    let wt = pick(rng, &[1u64, 5, 3, 4, 6, 7, 0, 2]);
                    if wt != tag & 7 {
                        let mut pos = s;
                        get_varint(b, &mut pos);
                        let mut t = vec![];
                        put_varint(&mut t, (tag & !7) | wt, 0);
                        out.splice(s..pos, t);
                        return ("mut:wire-type".into(), out);
                    }
                }
            }
            5 => {
                // an 11-byte varint: as the value of a varint field if there is one, else as a tag
                let vf: Vec<_> = fields.iter().filter(|f| WT::of(&f.kind()) == WT::Varint).collect();
                let mut tlv = vec![];
                if let Some(f) = vf.choose(rng) {
                    put_varint(&mut tlv, (f.number() as u64) << 3, 0);
                }
                tlv.extend([0x80u8; 10]);
                tlv.push(pick(rng, &[0u8, 1]));
                let at = at_boundary(rng);
                out.splice(at..at, tlv);
                return ("mut:varint11".into(), out);
            }
            6 => {
                // a length prefix larger than what is left
                let lf: Vec<_> = fields.iter().collect();
                let num = lf.choose(rng).map_or(1, |f| f.number());
                let mut tlv = vec![];
                put_varint(&mut tlv, ((num as u64) << 3) | 2, 0);
                let rest = rng.gen_range(0..4usize);
                let claim = pick(rng, &[rest as u64 + 1, rest as u64 + 100, u32::MAX as u64, (1 << 32) + rest as u64, u64::MAX]);
                put_varint(&mut tlv, claim, 0);
                tlv.extend((0..rest).map(|_| rng.gen::<u8>()));
                out.extend(tlv); // at the end, so that "what is left" is `rest`
                return ("mut:len-too-big".into(), out);
            }
            7 => {
                // a known field under a wrong wire type
                if let Some(f) = fields.choose(rng) {
                    let fw = WT::of(&f.kind()).raw();
                    let wt = pick(rng, &[0u64, 1, 2, 5]);
                    if wt != fw {
                        let mut tlv = vec![];
                        put_varint(&mut tlv, ((f.number() as u64) << 3) | wt, 0);
                        tlv.extend(random_payload(wt, rng));
                        let at = at_boundary(rng);
                        out.splice(at..at, tlv);
                        return ("mut:wrong-wire".into(), out);
                    }
                }
            }
            8 => {
                // a singular scalar field written as a packed chunk of 0 / 1 / 2 values
                let sf: Vec<_> = fields.iter().filter(|f| !f.is_list() && !f.is_map() && WT::of(&f.kind()) != WT::Len).collect();
                if let Some(f) = sf.choose(rng) {
                    let fw = WT::of(&f.kind());
                    let n = rng.gen_range(0..3);
                    let mut chunk = vec![];
                    for _ in 0..n {
                        chunk.extend(random_payload(fw.raw(), rng));
                    }
                    let mut tlv = vec![];
                    put_varint(&mut tlv, ((f.number() as u64) << 3) | 2, 0);
                    put_varint(&mut tlv, chunk.len() as u64, 0);
                    tlv.extend(chunk);
                    let at = at_boundary(rng);
                    out.splice(at..at, tlv);
                    return ("mut:packed-singular".into(), out);
                }
            }
            9 => {
                // a padded varint whose 10th byte carries bits beyond 64, or a >32-bit tag / length
                let mut tlv = vec![];
                if let Some(f) = fields.choose(rng) {
                    match rng.gen_range(0..3) {
                        0 => {
                            // tag with bits above 2^32 set: quick-protobuf truncates to the low 32 bits
                            let fw = WT::of(&f.kind());
                            let tag = ((f.number() as u64) << 3) | fw.raw() | (1 << pick(rng, &[32u32, 35, 40, 63]));
                            put_varint(&mut tlv, tag, 0);
                            tlv.extend(random_payload(fw.raw(), rng));
                        }
                        1 => {
                            put_varint(&mut tlv, ((f.number() as u64) << 3) | 2, 0);
                            let n = rng.gen_range(0..4u64);
                            put_varint(&mut tlv, n | (1 << 32), 0);
                            tlv.extend((0..n).map(|_| rng.gen::<u8>()));
                        }
                        _ => {
                            put_varint(&mut tlv, (f.number() as u64) << 3, 0);
                            tlv.extend([0xffu8; 9]);
                            tlv.push(pick(rng, &[0x7fu8, 0x02, 0x03]));
                        }
                    }
                    let at = at_boundary(rng);
                    out.splice(at..at, tlv);
                    return ("mut:overlong".into(), out);
                }
            }
            _ => {}
        }
    }
    out.push(0x07);
    ("mut:junk-tail".into(), out)
}

// ---------------------------------------------------------------------------------------------
// typed values: key pool, edge generators, registry
// ---------------------------------------------------------------------------------------------

/// A small fixed pool of keys / signatures (BLS key generation and signing are the expensive part).
struct KeyPool {
    vkeys: Vec<validator::SecretKey>,
    nkeys: Vec<node::SecretKey>,
    sigs: Vec<validator::Signature>,
    aggs: Vec<validator::AggregateSignature>,
}

static POOL: Lazy<KeyPool> = Lazy::new(|| {
    let rng = &mut StdRng::seed_from_u64(0xC09);
    let vkeys: Vec<validator::SecretKey> = (0..8).map(|_| rng.gen()).collect();
    let nkeys: Vec<node::SecretKey> = (0..4).map(|_| rng.gen()).collect();
    let sigs: Vec<validator::Signature> = vkeys.iter().map(|k| k.sign_hash(&rng.gen::<validator::MsgHash>())).collect();
    let mut aggs = vec![validator::AggregateSignature::default()];
    for n in 1..=4 {
        aggs.push(validator::AggregateSignature::aggregate(sigs.iter().skip(n).take(n)));
        aggs.push(validator::AggregateSignature::aggregate(sigs.iter().take(n)));
    }
    KeyPool { vkeys, nkeys, sigs, aggs }
});

fn e_u64(rng: &mut StdRng) -> u64 {
    match rng.gen_range(0..8) {
        0 => 0,
        1 => 1,
        2 => 127,
        3 => 128,
        4 => u32::MAX as u64,
        5 => 1 << 32,
        6 => u64::MAX,
        _ => rng.gen(),
    }
}

fn e_b32(rng: &mut StdRng) -> [u8; 32] {
    match rng.gen_range(0..3) {
        0 => [0; 32],
        1 => [0xff; 32],
        _ => rng.gen(),
    }
}

fn genesis_hash(b: &[u8]) -> validator::GenesisHash {
    ProtoFmt::read(&vproto::GenesisHash { keccak256: Some(b.to_vec()) }).expect("genesis hash")
}
fn payload_hash(b: &[u8]) -> validator::PayloadHash {
    ProtoFmt::read(&vproto::PayloadHash { keccak256: Some(b.to_vec()) }).expect("payload hash")
}
fn genesis_hash_bytes(h: &validator::GenesisHash) -> Vec<u8> {
    h.build().keccak256.unwrap()
}
fn payload_hash_bytes(h: &validator::PayloadHash) -> Vec<u8> {
    h.build().keccak256.unwrap()
}

fn bits_of_str(s: &str) -> BitVec {
    let mut b = BitVec::new();
    for c in s.chars() {
        b.push(c == '1');
    }
    b
}
fn str_of_bits(b: &BitVec) -> String {
    b.iter().map(|x| if x { '1' } else { '0' }).collect()
}

fn e_bits(rng: &mut StdRng) -> BitVec {
    let n = if rng.gen_bool(0.7) { pick(rng, &[0usize, 1, 7, 8, 9, 63, 64, 65]) } else { rng.gen_range(0..40) };
    let mode = rng.gen_range(0..3);
    BitVec::from_fn(n, |_| match mode {
        0 => false,
        1 => true,
        _ => rng.gen(),
    })
}
fn e_view(rng: &mut StdRng) -> v2::View {
    v2::View { genesis: genesis_hash(&e_b32(rng)), number: validator::ViewNumber(e_u64(rng)), epoch: validator::EpochNumber(e_u64(rng)) }
}
fn e_header(rng: &mut StdRng) -> v2::BlockHeader {
    v2::BlockHeader { number: validator::BlockNumber(e_u64(rng)), payload: payload_hash(&e_b32(rng)) }
}
fn e_rc(rng: &mut StdRng) -> v2::ReplicaCommit {
    v2::ReplicaCommit { view: e_view(rng), proposal: e_header(rng) }
}
fn e_agg(rng: &mut StdRng) -> validator::AggregateSignature {
    pick(rng, &POOL.aggs)
}
fn e_cqc(rng: &mut StdRng) -> v2::CommitQC {
    v2::CommitQC { message: e_rc(rng), signers: v2::Signers(e_bits(rng)), signature: e_agg(rng) }
}
fn e_opt<T>(rng: &mut StdRng, f: fn(&mut StdRng) -> T) -> Option<T> {
    if rng.gen_bool(0.5) {
        Some(f(rng))
    } else {
        None
    }
}
fn e_rt(rng: &mut StdRng) -> v2::ReplicaTimeout {
    v2::ReplicaTimeout { view: e_view(rng), high_vote: e_opt(rng, e_rc), high_qc: e_opt(rng, e_cqc) }
}
fn e_tqc(rng: &mut StdRng) -> v2::TimeoutQC {
    let n = rng.gen_range(0..=5);
    let mut entries: Vec<(v2::ReplicaTimeout, v2::Signers)> = (0..n).map(|_| (e_rt(rng), v2::Signers(e_bits(rng)))).collect();
    entries.shuffle(rng);
    let mut map = BTreeMap::new();
    for (k, v) in entries {
        map.insert(k, v);
    }
    v2::TimeoutQC { view: e_view(rng), map, signature: e_agg(rng) }
}
fn e_just(rng: &mut StdRng) -> v2::ProposalJustification {
    if rng.gen_bool(0.5) {
        v2::ProposalJustification::Commit(e_cqc(rng))
    } else {
        v2::ProposalJustification::Timeout(e_tqc(rng))
    }
}
fn e_blob(rng: &mut StdRng) -> Vec<u8> {
    match rng.gen_range(0..4) {
        0 => vec![],
        1 => vec![rng.gen()],
        2 => vec![0; rng.gen_range(1..300)],
        _ => (0..rng.gen_range(0..40)).map(|_| rng.gen()).collect(),
    }
}
fn e_payload(rng: &mut StdRng) -> validator::Payload {
    validator::Payload(e_blob(rng))
}
fn e_lp(rng: &mut StdRng) -> v2::LeaderProposal {
    let proposal_payload = match rng.gen_range(0..3) {
        0 => None,
        1 => Some(validator::Payload(vec![])),
        _ => Some(e_payload(rng)),
    };
    v2::LeaderProposal { proposal_payload, justification: e_just(rng) }
}
fn e_chonky(rng: &mut StdRng) -> v2::ChonkyMsg {
    match rng.gen_range(0..4) {
        0 => v2::ChonkyMsg::LeaderProposal(e_lp(rng)),
        1 => v2::ChonkyMsg::ReplicaCommit(e_rc(rng)),
        2 => v2::ChonkyMsg::ReplicaNewView(v2::ReplicaNewView { justification: e_just(rng) }),
        _ => v2::ChonkyMsg::ReplicaTimeout(e_rt(rng)),
    }
}
fn e_cmsg(rng: &mut StdRng) -> validator::ConsensusMsg {
    validator::ConsensusMsg::V2(e_chonky(rng))
}
fn e_sockaddr(rng: &mut StdRng) -> std::net::SocketAddr {
    let r: u16 = rng.gen();
    let port = pick(rng, &[0u16, 1, 80, 65535, r]);
    match rng.gen_range(0..6) {
        0 => std::net::SocketAddr::new(std::net::IpAddr::from([0u8; 4]), port),
        1 => std::net::SocketAddr::new(std::net::IpAddr::from(rng.gen::<[u8; 4]>()), port),
        2 => std::net::SocketAddr::new(std::net::IpAddr::from([0u8; 16]), port),
        3 => std::net::SocketAddr::new(std::net::IpAddr::from([0xffu8; 16]), port),
        4 => {
            // IPv4-mapped IPv6 address
            let mut ip = [0u8; 16];
            ip[10] = 0xff;
            ip[11] = 0xff;
            ip[12..].copy_from_slice(&rng.gen::<[u8; 4]>());
            std::net::SocketAddr::new(std::net::IpAddr::from(ip), port)
        }
        _ => std::net::SocketAddr::new(std::net::IpAddr::from(rng.gen::<[u8; 16]>()), port),
    }
}
/// Valid durations on and around the boundaries (never `i64::MIN` seconds with negative nanoseconds: excluded by
/// the property, exercised by the dedicated `duration` op only).
fn e_duration(rng: &mut StdRng) -> time::Duration {
    let (s, n): (i64, i32) = match rng.gen_range(0..12) {
        0 => (0, 0),
        1 => (0, 1),
        2 => (0, -1),
        3 => (-1, -999_999_999),
        4 => (i64::MAX, 999_999_999),
        5 => (i64::MIN + 1, -999_999_999),
        6 => (i64::MIN, 0),
        7 => (1, 0),
        8 => (-1, 0),
        9 => (rng.gen_range(0..=i64::MAX), rng.gen_range(0..1_000_000_000)),
        10 => (rng.gen_range(i64::MIN + 1..=0), -rng.gen_range(0..1_000_000_000)),
        _ => (rng.gen_range(-5..5), 0),
    };
    time::Duration::new(s, n)
}
fn e_utc(rng: &mut StdRng) -> time::Utc {
    time::UNIX_EPOCH + e_duration(rng)
}
fn e_netaddr(rng: &mut StdRng) -> validator::NetAddress {
    validator::NetAddress { addr: e_sockaddr(rng), version: e_u64(rng), timestamp: e_utc(rng) }
}
fn e_session(rng: &mut StdRng) -> node::SessionId {
    node::SessionId(e_blob(rng))
}
fn e_vmsg(rng: &mut StdRng) -> validator::Msg {
    match rng.gen_range(0..3) {
        0 => validator::Msg::Consensus(e_cmsg(rng)),
        1 => validator::Msg::SessionId(e_session(rng)),
        _ => validator::Msg::NetAddress(e_netaddr(rng)),
    }
}
fn e_vkey(rng: &mut StdRng) -> &'static validator::SecretKey {
    &POOL.vkeys[rng.gen_range(0..POOL.vkeys.len())]
}
fn e_vinfo(rng: &mut StdRng) -> validator::ValidatorInfo {
    let r: u64 = rng.gen();
    validator::ValidatorInfo { key: e_vkey(rng).public(), weight: pick(rng, &[1, 2, u64::MAX, 0, r]), leader: rng.gen() }
}
fn e_mode(rng: &mut StdRng) -> validator::LeaderSelectionMode {
    if rng.gen() {
        validator::LeaderSelectionMode::RoundRobin
    } else {
        validator::LeaderSelectionMode::Weighted
    }
}
fn e_sel(rng: &mut StdRng) -> validator::LeaderSelection {
    validator::LeaderSelection { frequency: e_u64(rng), mode: e_mode(rng) }
}
fn e_schedule(rng: &mut StdRng) -> validator::Schedule {
    let n = pick(rng, &[1usize, 1, 2, 3, 4]);
    let mut keys: Vec<usize> = (0..POOL.vkeys.len()).collect();
    keys.shuffle(rng);
    let huge = rng.gen_range(0..n);
    let mut vs: Vec<validator::ValidatorInfo> = (0..n)
        .map(|i| validator::ValidatorInfo {
            key: POOL.vkeys[keys[i]].public(),
            weight: if i == huge && rng.gen_bool(0.3) { u64::MAX - 10 } else { rng.gen_range(1..=3) },
            leader: rng.gen(),
        })
        .collect();
    let l = rng.gen_range(0..n);
    vs[l].leader = true;
    validator::Schedule::new(vs, e_sel(rng)).expect("edge schedule")
}
fn e_genesis_raw(rng: &mut StdRng) -> validator::GenesisRaw {
    validator::GenesisRaw {
        chain_id: validator::ChainId(e_u64(rng)),
        fork_number: validator::ForkNumber(e_u64(rng)),
        protocol_version: validator::ProtocolVersion(2),
        first_block: validator::BlockNumber(e_u64(rng)),
        // None / a single validator / several
        validators_schedule: match rng.gen_range(0..3) {
            0 => None,
            1 => Some(
                validator::Schedule::new(
                    vec![validator::ValidatorInfo { key: e_vkey(rng).public(), weight: pick(rng, &[1u64, u64::MAX]), leader: true }],
                    e_sel(rng),
                )
                .expect("single-validator schedule"),
            ),
            _ => Some(e_schedule(rng)),
        },
    }
}
fn e_proposal(rng: &mut StdRng) -> validator::Proposal {
    validator::Proposal { number: validator::BlockNumber(e_u64(rng)), payload: e_payload(rng) }
}
fn e_pregenesis(rng: &mut StdRng) -> validator::PreGenesisBlock {
    validator::PreGenesisBlock {
        number: validator::BlockNumber(e_u64(rng)),
        payload: e_payload(rng),
        justification: validator::Justification(e_blob(rng)),
    }
}
fn e_final(rng: &mut StdRng) -> v2::FinalBlock {
    v2::FinalBlock { payload: e_payload(rng), justification: e_cqc(rng) }
}
fn e_block(rng: &mut StdRng) -> validator::Block {
    if rng.gen() {
        validator::Block::PreGenesis(e_pregenesis(rng))
    } else {
        validator::Block::FinalV2(e_final(rng))
    }
}
fn e_phase(rng: &mut StdRng) -> v2::Phase {
    pick(rng, &[v2::Phase::Prepare, v2::Phase::Commit, v2::Phase::Timeout])
}
fn e_state(rng: &mut StdRng) -> v2::ChonkyV2State {
    let np = pick(rng, &[0usize, 0, 1, 3, 25]);
    v2::ChonkyV2State {
        epoch: validator::EpochNumber(e_u64(rng)),
        view_number: validator::ViewNumber(e_u64(rng)),
        phase: e_phase(rng),
        high_vote: e_opt(rng, e_rc),
        high_commit_qc: e_opt(rng, e_cqc),
        high_timeout_qc: e_opt(rng, e_tqc),
        proposals: (0..np).map(|_| e_proposal(rng)).collect(),
    }
}
fn e_semver(rng: &mut StdRng) -> semver::Version {
    let id = |rng: &mut StdRng| -> String {
        pick(rng, &["", "alpha", "alpha.1", "0.3.7", "x-y-z.-", "rc.1-2"]).to_string()
    };
    let pre = id(rng);
    let build = pick(rng, &["", "001", "20130313144700", "exp.sha.5114f85", "21AF26D3----117B344092BD"]).to_string();
    semver::Version {
        major: e_u64(rng),
        minor: e_u64(rng),
        patch: e_u64(rng),
        pre: semver::Prerelease::new(&pre).expect("prerelease"),
        build: semver::BuildMetadata::new(&build).expect("build metadata"),
    }
}
fn r_semver(rng: &mut StdRng) -> semver::Version {
    let id = |rng: &mut StdRng| -> String { (0..10).map(|_| rng.gen_range('a'..='z')).collect() };
    semver::Version {
        major: rng.gen(),
        minor: rng.gen(),
        patch: rng.gen(),
        pre: semver::Prerelease::new(&id(rng)).unwrap(),
        build: semver::BuildMetadata::new(&id(rng)).unwrap(),
    }
}

/// `WireValue` for public types whose equality / hash needs a hand-written projection.
struct WX<T> {
    v: T,
    eq: fn(&T, &T) -> bool,
    /// `ByteFmt`-style bytes of the value's own `hash()`
    hash: Option<fn(&T) -> Vec<u8>>,
}

impl<T: ProtoFmt + std::fmt::Debug> WireValue for WX<T> {
    fn proto_name(&self) -> String {
        wire::proto_name_of::<T>()
    }
    fn prost_bytes(&self) -> Vec<u8> {
        wire::prost_bytes_of(&self.v)
    }
    fn encode(&self) -> Vec<u8> {
        zksync_protobuf::encode(&self.v)
    }
    fn canonical(&self) -> Vec<u8> {
        zksync_protobuf::canonical(&self.v)
    }
    fn decode_eq(&self, bytes: &[u8]) -> anyhow::Result<bool> {
        Ok((self.eq)(&zksync_protobuf::decode::<T>(bytes)?, &self.v))
    }
    fn debug(&self) -> String {
        format!("{:?}", self.v)
    }
    fn hash_and_preimage(&self) -> Option<(Vec<u8>, Vec<u8>)> {
        self.hash.map(|h| (h(&self.v), zksync_protobuf::encode(&self.v)))
    }
}

type GenFn = fn(&mut StdRng, bool) -> Box<dyn WireValue>;

/// `key => |rng, edge| value`
macro_rules! g {
    ($key:expr, |$a:ident, $b:ident| $body:expr) => {
        ($key, (|$a: &mut StdRng, $b: bool| -> Box<dyn WireValue> { $body }) as GenFn)
    };
}

/// `key => random (the repository's own `Standard` impl) | edge generator`
macro_rules! ty {
    ($key:expr, $t:ty, $edge:expr) => {
        ($key, (|rng: &mut StdRng, edge: bool| -> Box<dyn WireValue> {
            let v: $t = if edge { ($edge)(rng) } else { rng.gen() };
            Box::new(W(v))
        }) as GenFn)
    };
}
/// `key => random expression | edge expression` (for types without a `Standard` impl)
macro_rules! ty2 {
    ($key:expr, |$rng:ident| $rand:expr, $edge:expr) => {
        ($key, (|$rng: &mut StdRng, edge: bool| -> Box<dyn WireValue> {
            if edge {
                Box::new(W($edge))
            } else {
                Box::new(W($rand))
            }
        }) as GenFn)
    };
}

fn vsign<V: zksync_consensus_utils::enum_util::Variant<validator::Msg>>(rng: &mut StdRng, v: V) -> validator::Signed<V> {
    e_vkey(rng).sign_msg(v)
}
fn nsign(rng: &mut StdRng, v: node::SessionId) -> node::Signed<node::SessionId> {
    POOL.nkeys[rng.gen_range(0..POOL.nkeys.len())].sign_msg(v)
}

fn registry() -> Vec<(&'static str, GenFn)> {
    let mut r: Vec<(&'static str, GenFn)> = vec![
        // validator
        g!("validator::Msg", |rng, edge| {
            let v: validator::Msg = if edge { e_vmsg(rng) } else { rng.gen() };
            Box::new(WX { v, eq: |a, b| a == b, hash: Some(|x| ByteFmt::encode(&x.hash())) })
        }),
        ty!("validator::ConsensusMsg", validator::ConsensusMsg, e_cmsg),
        ty!("validator::MsgHash", validator::MsgHash, |rng: &mut StdRng| -> validator::MsgHash { ByteFmt::decode(&e_b32(rng)).unwrap() }),
        ty!("validator::Signed<ConsensusMsg>", validator::Signed<validator::ConsensusMsg>, |rng: &mut StdRng| {
            let m = e_cmsg(rng);
            vsign(rng, m)
        }),
        ty!("validator::Signed<NetAddress>", validator::Signed<validator::NetAddress>, |rng: &mut StdRng| {
            let m = e_netaddr(rng);
            vsign(rng, m)
        }),
        ty!("validator::NetAddress", validator::NetAddress, e_netaddr),
        g!("validator::GenesisRaw", |rng, edge| {
            let v: validator::GenesisRaw = if edge { e_genesis_raw(rng) } else { rng.gen() };
            Box::new(WX { v, eq: |a, b| a == b, hash: Some(|x| genesis_hash_bytes(&x.clone().with_hash().hash())) })
        }),
        g!("validator::Genesis", |rng, edge| {
            let v: validator::Genesis = if edge { e_genesis_raw(rng).with_hash() } else { rng.gen() };
            // `Genesis: PartialEq` compares the hashes only; compare the raw part as well
            Box::new(WX { v, eq: |a, b| a.hash() == b.hash() && **a == **b, hash: Some(|x| genesis_hash_bytes(&x.hash())) })
        }),
        ty!("validator::GenesisHash", validator::GenesisHash, |rng: &mut StdRng| genesis_hash(&e_b32(rng))),
        ty!("validator::Schedule", validator::Schedule, e_schedule),
        ty!("validator::ValidatorInfo", validator::ValidatorInfo, e_vinfo),
        ty!("validator::LeaderSelection", validator::LeaderSelection, e_sel),
        ty!("validator::LeaderSelectionMode", validator::LeaderSelectionMode, e_mode),
        ty!("validator::PayloadHash", validator::PayloadHash, |rng: &mut StdRng| payload_hash(&e_b32(rng))),
        ty!("validator::Proposal", validator::Proposal, e_proposal),
        ty!("validator::Block", validator::Block, e_block),
        ty!("validator::PreGenesisBlock", validator::PreGenesisBlock, e_pregenesis),
        ty!("validator::ReplicaState", validator::ReplicaState, |rng: &mut StdRng| validator::ReplicaState::V2(e_state(rng))),
        ty!("validator::PublicKey", validator::PublicKey, |rng: &mut StdRng| e_vkey(rng).public()),
        ty!("validator::Signature", validator::Signature, |rng: &mut StdRng| pick(rng, &POOL.sigs)),
        ty!("validator::AggregateSignature", validator::AggregateSignature, e_agg),
        // validator::v2
        ty!("v2::BlockHeader", v2::BlockHeader, e_header),
        ty!("v2::FinalBlock", v2::FinalBlock, e_final),
        ty!("v2::ChonkyMsg", v2::ChonkyMsg, e_chonky),
        ty!("v2::View", v2::View, e_view),
        ty!("v2::Signers", v2::Signers, |rng: &mut StdRng| v2::Signers(e_bits(rng))),
        ty!("v2::Phase", v2::Phase, e_phase),
        ty!("v2::ChonkyV2State", v2::ChonkyV2State, e_state),
        ty!("v2::ReplicaTimeout", v2::ReplicaTimeout, e_rt),
        ty!("v2::TimeoutQC", v2::TimeoutQC, e_tqc),
        ty!("v2::ReplicaNewView", v2::ReplicaNewView, |rng: &mut StdRng| v2::ReplicaNewView { justification: e_just(rng) }),
        ty!("v2::ReplicaCommit", v2::ReplicaCommit, e_rc),
        ty!("v2::CommitQC", v2::CommitQC, e_cqc),
        ty!("v2::LeaderProposal", v2::LeaderProposal, e_lp),
        ty!("v2::ProposalJustification", v2::ProposalJustification, e_just),
        // node
        g!("node::Msg", |rng, edge| {
            let v = node::Msg::SessionId(if edge { e_session(rng) } else { rng.gen() });
            Box::new(WX {
                v,
                eq: |a, b| {
                    let (node::Msg::SessionId(a), node::Msg::SessionId(b)) = (a, b);
                    a == b
                },
                hash: Some(|x| ByteFmt::encode(&x.hash())),
            })
        }),
        ty!("node::Signed<SessionId>", node::Signed<node::SessionId>, |rng: &mut StdRng| {
            let s = e_session(rng);
            nsign(rng, s)
        }),
        ty!("node::PublicKey", node::PublicKey, |rng: &mut StdRng| POOL.nkeys[rng.gen_range(0..POOL.nkeys.len())].public()),
        ty!("node::Signature", node::Signature, |rng: &mut StdRng| {
            let s = e_session(rng);
            nsign(rng, s).sig
        }),
        // std
        ty2!("std::()", |_rng| (), ()),
        ty2!(
            "std::SocketAddr",
            |rng| std::net::SocketAddr::new(
                if rng.gen() { std::net::IpAddr::from(rng.gen::<[u8; 4]>()) } else { std::net::IpAddr::from(rng.gen::<[u8; 16]>()) },
                rng.gen()
            ),
            e_sockaddr(rng)
        ),
        ty2!(
            "std::time::Utc",
            |rng| time::UNIX_EPOCH + time::Duration::new(rng.gen_range(-4_000_000_000i64..4_000_000_000), 0) + time::Duration::nanoseconds(rng.gen_range(0..1_000_000_000)),
            e_utc(rng)
        ),
        ty2!(
            "std::time::Duration",
            |rng| time::Duration::nanoseconds(rng.gen::<i64>() >> rng.gen_range(0..64)),
            e_duration(rng)
        ),
        ty2!("std::BitVec", |rng| BitVec::from_fn(rng.gen_range(0..200), |_| rng.gen()), e_bits(rng)),
        ty2!(
            "std::limiter::Rate",
            |rng| limiter::Rate { burst: rng.gen_range(0..1000), refresh: time::Duration::milliseconds(rng.gen_range(0..100_000)) },
            limiter::Rate { burst: pick(rng, &[0usize, 1, usize::MAX]), refresh: e_duration(rng) }
        ),
    ];
    // network (crate-private types, through the verif hook)
    let net: Vec<(&'static str, GenFn)> = vec![
        g!("network::consensus::Handshake", |rng, edge| {
            let s = if edge { e_session(rng) } else { rng.gen() };
            let g = if edge { genesis_hash(&e_b32(rng)) } else { rng.gen() };
            wire::consensus_handshake(vsign(rng, s), g)
        }),
        g!("network::gossip::Handshake", |rng, edge| {
            let s = if edge { e_session(rng) } else { rng.gen() };
            let g = if edge { genesis_hash(&e_b32(rng)) } else { rng.gen() };
            let ver = if edge { e_opt(rng, e_semver) } else { Some(r_semver(rng)) };
            wire::gossip_handshake(nsign(rng, s), g, rng.gen(), ver)
        }),
        g!("network::preface::Encryption", |_rng, _edge| wire::preface_encryption()),
        g!("network::preface::Endpoint", |rng, _edge| wire::preface_endpoint(rng.gen())),
        g!("network::mux::Handshake", |rng, edge| {
            let caps = |rng: &mut StdRng| -> Vec<(u64, u32)> {
                let n = if edge { pick(rng, &[0usize, 1, 16]) } else { rng.gen_range(0..8) };
                let mut ids: BTreeSet<u64> = BTreeSet::new();
                while ids.len() < n {
                    ids.insert(if edge { e_u64(rng) } else { rng.gen_range(0..20) });
                }
                let mut v: Vec<(u64, u32)> = ids
                    .into_iter()
                    .map(|id| {
                        let r: u32 = rng.gen();
                        (id, pick(rng, &[0u32, 1, u32::MAX, r]))
                    })
                    .collect();
                v.shuffle(rng);
                v
            };
            let (a, c) = (caps(rng), caps(rng));
            wire::mux_handshake(a, c, false)
        }),
        g!("network::rpc::consensus::Req", |rng, edge| {
            let m: validator::ConsensusMsg = if edge { e_cmsg(rng) } else { rng.gen() };
            wire::rpc_consensus_req(vsign(rng, m))
        }),
        g!("network::rpc::consensus::Resp", |_rng, _edge| wire::rpc_consensus_resp()),
        g!("network::rpc::ping::Req", |rng, edge| wire::rpc_ping_req(if edge { e_b32(rng) } else { rng.gen() })),
        g!("network::rpc::ping::Resp", |rng, edge| wire::rpc_ping_resp(if edge { e_b32(rng) } else { rng.gen() })),
        g!("network::rpc::push_validator_addrs::Req", |rng, edge| {
            let n = if edge { pick(rng, &[0usize, 1, 12]) } else { rng.gen_range(5..10) };
            let addrs = (0..n)
                .map(|_| {
                    let a: validator::NetAddress = if edge { e_netaddr(rng) } else { rng.gen() };
                    vsign(rng, a)
                })
                .collect();
            wire::rpc_push_validator_addrs_req(addrs)
        }),
        g!("network::rpc::push_tx::Req", |rng, edge| wire::rpc_push_tx_req(if edge { Transaction(e_blob(rng)) } else { rng.gen() })),
        g!("network::rpc::push_block_store_state::Req", |rng, edge| {
            let state = if edge {
                BlockStoreState {
                    first: validator::BlockNumber(e_u64(rng)),
                    last: match rng.gen_range(0..3) {
                        0 => None,
                        1 => Some(Last::PreGenesis(validator::BlockNumber(e_u64(rng)))),
                        _ => Some(Last::FinalV2(e_cqc(rng))),
                    },
                }
            } else {
                rng.gen()
            };
            wire::rpc_push_block_store_state_req(state)
        }),
        g!("network::rpc::get_block::Req", |rng, edge| {
            wire::rpc_get_block_req(validator::BlockNumber(if edge { e_u64(rng) } else { rng.gen() }))
        }),
        g!("network::rpc::get_block::Resp", |rng, edge| {
            let b = if edge {
                match rng.gen_range(0..3) {
                    0 => None,
                    1 => Some(validator::Block::PreGenesis(e_pregenesis(rng))),
                    _ => Some(validator::Block::FinalV2(e_final(rng))),
                }
            } else if rng.gen() {
                Some(validator::Block::FinalV2(rng.gen()))
            } else {
                Some(rng.gen())
            };
            wire::rpc_get_block_resp(b)
        }),
    ];
    debug_assert!(net.iter().map(|x| x.0).eq(wire::private_kinds().iter().copied()));
    r.extend(net);
    r
}

fn make_value(reg: &[(&'static str, GenFn)], key: &str, seed: u64) -> Option<Box<dyn WireValue>> {
    let (_, f) = reg.iter().find(|(k, _)| *k == key)?;
    let rng = &mut StdRng::seed_from_u64(seed);
    let edge = seed & 1 == 1;
    Some(f(rng, edge))
}

// ---------------------------------------------------------------------------------------------
// JSON <-> consensus values (tqc op)
// ---------------------------------------------------------------------------------------------

fn view_json(v: &v2::View) -> Value {
    json!({"genesis": hx(&genesis_hash_bytes(&v.genesis)), "number": v.number.0, "epoch": v.epoch.0})
}
fn rc_json(c: &v2::ReplicaCommit) -> Value {
    json!({"view": view_json(&c.view), "number": c.proposal.number.0, "payload": hx(&payload_hash_bytes(&c.proposal.payload))})
}
fn cqc_json(q: &v2::CommitQC) -> Value {
    json!({"msg": rc_json(&q.message), "signers": str_of_bits(&q.signers.0), "sig": hx(&ByteFmt::encode(&q.signature))})
}
fn rt_json(t: &v2::ReplicaTimeout) -> Value {
    json!({"view": view_json(&t.view),
           "high_vote": t.high_vote.as_ref().map_or(Value::Null, rc_json),
           "high_qc": t.high_qc.as_ref().map_or(Value::Null, cqc_json)})
}
fn view_of(j: &Value) -> v2::View {
    v2::View {
        genesis: genesis_hash(&unhx(&j["genesis"])),
        number: validator::ViewNumber(j["number"].as_u64().expect("number")),
        epoch: validator::EpochNumber(j["epoch"].as_u64().expect("epoch")),
    }
}
fn rc_of(j: &Value) -> v2::ReplicaCommit {
    v2::ReplicaCommit {
        view: view_of(&j["view"]),
        proposal: v2::BlockHeader { number: validator::BlockNumber(j["number"].as_u64().expect("number")), payload: payload_hash(&unhx(&j["payload"])) },
    }
}
fn agg_of(j: &Value) -> validator::AggregateSignature {
    ByteFmt::decode(&unhx(j)).expect("aggregate signature")
}
fn cqc_of(j: &Value) -> v2::CommitQC {
    v2::CommitQC {
        message: rc_of(&j["msg"]),
        signers: v2::Signers(bits_of_str(j["signers"].as_str().expect("signers"))),
        signature: agg_of(&j["sig"]),
    }
}
fn rt_of(j: &Value) -> v2::ReplicaTimeout {
    v2::ReplicaTimeout {
        view: view_of(&j["view"]),
        high_vote: if j["high_vote"].is_null() { None } else { Some(rc_of(&j["high_vote"])) },
        high_qc: if j["high_qc"].is_null() { None } else { Some(cqc_of(&j["high_qc"])) },
    }
}

fn tqc_build(view: &v2::View, entries: &[(v2::ReplicaTimeout, v2::Signers)], sig: &validator::AggregateSignature) -> v2::TimeoutQC {
    let mut map = BTreeMap::new();
    for (k, v) in entries {
        map.insert(k.clone(), v.clone());
    }
    v2::TimeoutQC { view: *view, map, signature: sig.clone() }
}

/// A base `ReplicaTimeout` and neighbours that differ from it in exactly one component (every level of the
/// derived `Ord` decides somewhere).
fn rt_variants(rng: &mut StdRng) -> Vec<v2::ReplicaTimeout> {
    let g = |x: u8| genesis_hash(&[x; 32]);
    let view = v2::View { genesis: g(7), number: validator::ViewNumber(rng.gen_range(1..1000)), epoch: validator::EpochNumber(rng.gen_range(1..5)) };
    let rc = v2::ReplicaCommit {
        view: v2::View { number: validator::ViewNumber(view.number.0 - 1), ..view },
        proposal: v2::BlockHeader { number: validator::BlockNumber(rng.gen_range(1..100)), payload: payload_hash(&[0x55; 32]) },
    };
    let cqc = v2::CommitQC { message: rc.clone(), signers: v2::Signers(bits_of_str("01")), signature: POOL.aggs[1].clone() };
    let base = v2::ReplicaTimeout { view, high_vote: Some(rc.clone()), high_qc: Some(cqc.clone()) };
    let mut v = vec![base.clone()];
    let mut push = |f: &dyn Fn(&mut v2::ReplicaTimeout)| {
        let mut t = base.clone();
        f(&mut t);
        v.push(t);
    };
    push(&|t| t.view.number.0 += 1);
    push(&|t| {
        // larger epoch, smaller number: the epoch is compared first (struct order), although it is written last
        t.view.epoch.0 += 1;
        t.view.number.0 -= 1;
    });
    push(&|t| t.view.genesis = g(6));
    push(&|t| t.view.genesis = g(8));
    push(&|t| t.high_vote = None);
    push(&|t| t.high_qc = None);
    push(&|t| {
        t.high_vote = None;
        t.high_qc = None;
    });
    push(&|t| t.high_vote.as_mut().unwrap().proposal.number.0 += 1);
    push(&|t| t.high_vote.as_mut().unwrap().proposal.payload = payload_hash(&[0x56; 32]));
    push(&|t| t.high_vote.as_mut().unwrap().view.epoch.0 -= 1);
    push(&|t| t.high_qc.as_mut().unwrap().signers = v2::Signers(bits_of_str("010")));
    push(&|t| t.high_qc.as_mut().unwrap().signers = v2::Signers(bits_of_str("0")));
    push(&|t| t.high_qc.as_mut().unwrap().signers = v2::Signers(bits_of_str("")));
    push(&|t| t.high_qc.as_mut().unwrap().signers = v2::Signers(bits_of_str("1")));
    push(&|t| t.high_qc.as_mut().unwrap().signature = POOL.aggs[2].clone());
    push(&|t| t.high_qc.as_mut().unwrap().signature = POOL.aggs[0].clone());
    push(&|t| t.high_qc.as_mut().unwrap().message.proposal.number.0 += 1);
    push(&|t| t.high_qc.as_mut().unwrap().message.view.number.0 += 256);
    v
}

// ---------------------------------------------------------------------------------------------
// the property
// ---------------------------------------------------------------------------------------------


// ---------------------------------------------------------------------------------------------
// the build-time restriction (protobuf_build/src/canonical.rs), run through the public `Config::generate`
// ---------------------------------------------------------------------------------------------

/// (case name, text of a `.proto` file of package `zksync.c09check`)
const BUILD_CASES: &[(&str, &str)] = &[
    ("good", "syntax = \"proto3\";\npackage zksync.c09check;\nenum E { A = 0; B = 1; }\nmessage Sub { optional bytes x = 1; }\nmessage M { optional uint64 a = 1; repeated uint32 r = 2; repeated E e = 3; Sub s = 4; repeated Sub rs = 5; oneof t { bool u = 6; Sub v = 7; } optional string name = 8; }\n"),
    ("empty", "syntax = \"proto3\";\npackage zksync.c09check;\nmessage M {}\n"),
    ("map", "syntax = \"proto3\";\npackage zksync.c09check;\nmessage M { optional uint64 a = 1; map<uint32, bytes> m = 2; }\n"),
    ("implicit-scalar", "syntax = \"proto3\";\npackage zksync.c09check;\nmessage M { uint64 a = 1; }\n"),
    ("implicit-bytes", "syntax = \"proto3\";\npackage zksync.c09check;\nmessage M { optional uint64 a = 1; bytes b = 2; }\n"),
    ("implicit-enum", "syntax = \"proto3\";\npackage zksync.c09check;\nenum E { A = 0; }\nmessage M { E e = 1; }\n"),
    ("implicit-nested", "syntax = \"proto3\";\npackage zksync.c09check;\nmessage M { optional Inner i = 1; message Inner { string s = 1; } }\n"),
    ("implicit-in-referenced", "syntax = \"proto3\";\npackage zksync.c09check;\nmessage Bad { bool flag = 3; }\nmessage M { repeated Bad bs = 1; }\n"),
    ("map-in-nested", "syntax = \"proto3\";\npackage zksync.c09check;\nmessage M { message Inner { map<string, uint64> m = 1; } optional Inner i = 1; }\n"),
    ("proto2", "syntax = \"proto2\";\npackage zksync.c09check;\nmessage M { optional uint64 a = 1; }\n"),
    ("message-without-optional", "syntax = \"proto3\";\npackage zksync.c09check;\nmessage S {}\nmessage M { S s = 1; }\n"),
    ("oneof-scalars", "syntax = \"proto3\";\npackage zksync.c09check;\nmessage M { oneof t { uint64 a = 1; bytes b = 2; fixed32 c = 3; } }\n"),
    ("repeated-only", "syntax = \"proto3\";\npackage zksync.c09check;\nmessage M { repeated fixed64 a = 1; repeated bytes b = 2; repeated double d = 3; }\n"),
];

/// Descriptors of a stand-alone `.proto` text (compiled with protox, which does not apply the restriction).
fn compile_standalone(text: &str) -> Result<prost_types::FileDescriptorSet, String> {
    let vpath = "zksync/c09check/case.proto";
    let file = protox::file::File::from_source(vpath, text).map_err(|e| format!("{e:?}"))?;
    let mut set = prost_types::FileDescriptorSet::default();
    set.file.push(file.into());
    let mut compiler = protox::Compiler::with_file_resolver(protox::file::DescriptorSetFileResolver::new(set));
    compiler.open_files([vpath]).map_err(|e| format!("{e:?}"))?;
    Ok(compiler.file_descriptor_set())
}

/// The restriction as the doc comment of proto_fmt.rs / canonical.rs states it, evaluated on the descriptors:
/// proto3, no map field, every field repeated or with explicit presence — for every message of the file.
fn restriction_holds(pool: &SynPool) -> bool {
    pool.msgs.iter().all(|m| is_proto3(m) && m.fields().all(|f| !f.is_map() && (f.is_list() || f.supports_presence())))
}

/// `zksync_protobuf_build::Config::generate()` on a directory holding just this file (the only public way to
/// reach `canonical::check`). `Ok` = the build script would succeed.
fn run_build_check(dir: &std::path::Path, text: &str) -> Result<(), String> {
    let _ = std::fs::remove_dir_all(dir);
    std::fs::create_dir_all(dir.join("proto")).map_err(|e| e.to_string())?;
    std::fs::create_dir_all(dir.join("out")).map_err(|e| e.to_string())?;
    std::fs::write(dir.join("proto").join("case.proto"), text).map_err(|e| e.to_string())?;
    std::env::set_var("CARGO_MANIFEST_DIR", dir);
    std::env::set_var("OUT_DIR", dir.join("out"));
    let cfg = zksync_protobuf_build::Config {
        input_root: "proto".into(),
        proto_root: "zksync/c09check".into(),
        dependencies: vec![],
        protobuf_crate: "::zksync_protobuf".parse().map_err(|e| format!("{e:?}"))?,
        is_public: false,
    };
    cfg.generate().map_err(|e| format!("{e:#}"))
}

fn scratch_dir() -> std::path::PathBuf {
    let args: Vec<String> = std::env::args().collect();
    let base = args.iter().position(|a| a == "--out").and_then(|i| args.get(i + 1)).cloned().unwrap_or_else(|| "/verif/.work/C09-scratch".to_string());
    std::path::PathBuf::from(base).join("buildcheck")
}

pub struct C09 {
    pool: DescriptorPool,
    names: Vec<String>,
    syn: Vec<SynPool>,
    reg: Vec<(&'static str, GenFn)>,
    /// last re-generated typed value (exec is still a pure function of the op line)
    memo: Option<(String, u64, Box<dyn WireValue>)>,
}

impl C09 {
    pub fn new() -> Self {
        let pool = load_pool();
        let mut names: Vec<String> = pool.all_messages().map(|m| m.full_name().to_string()).collect();
        names.sort();
        Self {
            pool,
            names,
            syn: vec![SynPool::new("syn1", syn::syn1()), SynPool::new("syn2", syn::syn2())],
            reg: registry(),
            memo: None,
        }
    }

    fn desc(&self, name: &str) -> Option<MessageDescriptor> {
        self.pool.get_message_by_name(name)
    }

    /// `schema`/`table` part of a canon op for a descriptor.
    fn canon_op(&self, target: &Target, bytes: &[u8], fam: &str) -> Value {
        let mut op = match target {
            Target::Named(d) => json!({"op": "canon", "schema": d.full_name()}),
            Target::Syn(p, i) => json!({"op": "canon", "table": self.syn[*p].table.clone(), "idx": i, "syn": self.syn[*p].key}),
        };
        op["bytes"] = json!(hx(bytes));
        op["fam"] = json!(fam);
        op
    }

    fn target_desc(&self, t: &Target) -> MessageDescriptor {
        match t {
            Target::Named(d) => d.clone(),
            Target::Syn(p, i) => self.syn[*p].msgs[*i].clone(),
        }
    }
}

#[derive(Clone)]
enum Target {
    Named(MessageDescriptor),
    Syn(usize, usize),
}

const RESER: [&str; 5] = ["shuffle", "pad", "unpack", "repack", "mix"];

impl C09 {
    /// canon ops for the valid re-serialisations (`fams`) and `n_mut` mutations of `bytes` (a valid serialisation
    /// whose canonical form is `expect`).
    fn derived_ops(&self, ops: &mut Vec<Value>, rng: &mut StdRng, t: &Target, bytes: &[u8], expect: &[u8], fams: &[&str], n_mut: usize, extra: &Value) {
        let desc = self.target_desc(t);
        let tree = match parse_msg(bytes, &desc) {
            Ok(t) => t,
            Err(e) => panic!("harness: cannot parse a valid {} ({e}): {}", desc.full_name(), hx(bytes)),
        };
        for fam in fams {
            let b = emit(&tree, &desc, style_of(fam), rng);
            let mut op = self.canon_op(t, &b, fam);
            op["expect"] = json!(hx(expect));
            if let Some(o) = extra.as_object() {
                for (k, v) in o {
                    op[k] = v.clone();
                }
            }
            ops.push(op);
        }
        for _ in 0..n_mut {
            let src = if rng.gen_bool(0.5) { bytes.to_vec() } else { emit(&tree, &desc, style_of("mix"), rng) };
            let (fam, b) = mutate(&src, &desc, rng, 0);
            let mut op = self.canon_op(t, &b, &fam);
            if let Some(ty) = extra.get("ty") {
                op["ty"] = ty.clone();
            }
            ops.push(op);
        }
    }

    fn gen_typed(&self, ops: &mut Vec<Value>, rng: &mut StdRng, n: usize) {
        let per_type = (n / 40).max(2);
        for (key, _) in &self.reg {
            for i in 0..per_type {
                // the lowest seed bit selects the edge generator: every other value of every type is an edge value
                let seed: u64 = (rng.gen::<u64>() & !1) | ((i % 2 == 0) as u64);
                let x = make_value(&self.reg, key, seed).expect("registered");
                let name = x.proto_name();
                let desc = self.desc(&name).unwrap_or_else(|| panic!("no descriptor for {name}"));
                let t = Target::Named(desc);
                let prost = x.prost_bytes();
                let enc = x.encode();
                let extra = json!({"ty": key, "seed": seed});
                let mut op = self.canon_op(&t, &prost, "prost");
                op["ty"] = json!(key);
                op["seed"] = json!(seed);
                op["expect"] = json!(hx(&enc));
                ops.push(op);
                let n_mut = rng.gen_range(1..=2);
                self.derived_ops(ops, rng, &t, &prost, &enc, &["shuffle", "pad", "mix"], n_mut, &extra);
            }
        }
    }

    /// The schemas of the generic families.
    fn generic_targets(&self) -> Vec<Target> {
        let mut v = vec![];
        for name in [
            "zksync.protobuf.tests.A",
            "zksync.protobuf.tests.B",
            "zksync.protobuf.conformance_test.TestAllTypesProto3",
            "zksync.protobuf.conformance_test.TestAllTypesProto3.NestedMessage",
            "zksync.protobuf.conformance_test.ConformanceRequest",
            "zksync.roles.validator.TimeoutQCV2",
            "zksync.roles.validator.ChonkyV2State",
            "zksync.roles.validator.Genesis",
            "zksync.network.mux.Handshake",
            "zksync.network.gossip.GetBlockResponse",
            "zksync.tools.AppConfig",
        ] {
            v.push(Target::Named(self.desc(name).unwrap_or_else(|| panic!("{name}"))));
        }
        for (p, s) in self.syn.iter().enumerate() {
            for i in 0..s.msgs.len() {
                v.push(Target::Syn(p, i));
            }
        }
        v
    }

    fn gen_generic(&self, ops: &mut Vec<Value>, rng: &mut StdRng, n: usize) {
        let per = (n / 30).max(3);
        for t in self.generic_targets() {
            let desc = self.target_desc(&t);
            let ok_schema = is_proto3(&desc) && !desc.is_map_entry();
            for i in 0..per {
                if ok_schema {
                    let tree = gen_tree(&desc, rng, 0, true);
                    let canon = canon_bytes(&tree, &desc);
                    let mut op = self.canon_op(&t, &canon, "gen:canon");
                    op["expect"] = json!(hx(&canon));
                    ops.push(op);
                    let fams: Vec<&str> = if has_repeated_scalar(&desc) || i % 2 == 0 {
                        let mut f = RESER.to_vec();
                        f.shuffle(rng);
                        f.truncate(3);
                        f
                    } else {
                        vec!["shuffle", "pad", "mix"]
                    };
                    let fams: Vec<String> = fams.iter().map(|f| format!("gen:{f}")).collect();
                    let fams: Vec<&str> = fams.iter().map(|s| s.as_str()).collect();
                    self.derived_ops(ops, rng, &t, &canon, &canon, &fams, 1, &Value::Null);
                }
                // no restrictions respected: maps, implicit presence, proto2, singular fields twice
                let bad = gen_tree(&desc, rng, 0, false);
                let b = emit(&bad, &desc, style_of(pick(rng, &RESER)), rng);
                ops.push(self.canon_op(&t, &b, "gen:any"));
            }
        }
    }

    /// Directed: a repeated scalar field whose only occurrence is an empty packed chunk (finding F9).
    fn gen_f9(&self, ops: &mut Vec<Value>, rng: &mut StdRng) {
        for t in self.generic_targets() {
            let desc = self.target_desc(&t);
            if !is_proto3(&desc) {
                continue;
            }
            for f in sorted_fields(&desc) {
                if !(f.is_list() && WT::of(&f.kind()) != WT::Len) {
                    continue;
                }
                let mut chunk = vec![];
                put_varint(&mut chunk, ((f.number() as u64) << 3) | 2, 0);
                chunk.push(0);
                // alone
                let mut op = self.canon_op(&t, &chunk, "f9");
                op["expect"] = json!("");
                ops.push(op);
                // together with other fields (none of them this one)
                let mut tree = gen_tree(&desc, rng, 0, true);
                tree.occ.retain(|o| o.num != f.number());
                let canon = canon_bytes(&tree, &desc);
                let spans = scan_tlvs(&canon).expect("own canonical bytes");
                let at = if spans.is_empty() || rng.gen_bool(0.3) { canon.len() } else { spans[rng.gen_range(0..spans.len())].0 };
                let mut b = canon.clone();
                b.splice(at..at, chunk.clone());
                if rng.gen_bool(0.3) {
                    b.extend_from_slice(&chunk); // twice
                }
                let mut op = self.canon_op(&t, &b, "f9");
                op["expect"] = json!(hx(&canon));
                ops.push(op);
                // an empty chunk next to real values of the same field
                let vals: Vec<GV> = (0..rng.gen_range(1..=3)).map(|_| gen_value(&f.kind(), rng, 0, true)).collect();
                let mut tree2 = tree.clone();
                for v in &vals {
                    tree2.occ.push(Occ { num: f.number(), packed: false, vals: vec![v.clone()] });
                }
                let canon2 = canon_bytes(&tree2, &desc);
                let mut b2 = emit(&tree2, &desc, style_of("repack"), rng);
                if rng.gen() {
                    b2.extend_from_slice(&chunk);
                } else {
                    b2.splice(0..0, chunk.clone());
                }
                let mut op = self.canon_op(&t, &b2, "f9+values");
                op["expect"] = json!(hx(&canon2));
                ops.push(op);
            }
        }
    }
}

// ---------------------------------------------------------------------------------------------
// generators of the typed-conversion ops
// ---------------------------------------------------------------------------------------------

impl C09 {
    fn gen_conv(&self, ops: &mut Vec<Value>, rng: &mut StdRng, n: usize) {
        let k = (n / 10).max(10);
        // bitvec
        for len in [0usize, 1, 7, 8, 9, 15, 16, 17, 63, 64, 65] {
            for mode in 0..3 {
                let bits: String = (0..len)
                    .map(|_| match mode {
                        0 => '0',
                        1 => '1',
                        _ => if rng.gen() { '1' } else { '0' },
                    })
                    .collect();
                ops.push(json!({"op": "bitvec", "bits": bits}));
            }
        }
        for _ in 0..k {
            let len = rng.gen_range(0..130);
            let bits: String = (0..len).map(|_| if rng.gen() { '1' } else { '0' }).collect();
            ops.push(json!({"op": "bitvec", "bits": bits}));
        }
        // bitvec_read: sizes around 8 * len, and far beyond
        for _ in 0..k {
            let len = rng.gen_range(0..12usize);
            let bytes: Vec<u8> = (0..len).map(|_| rng.gen()).collect();
            let size: u64 = match rng.gen_range(0..8) {
                0 => 0,
                1 => 8 * len as u64,
                2 => 8 * len as u64 + 1,
                3 => (8 * len as u64).saturating_sub(1),
                4 => (8 * len as u64).saturating_sub(7),
                5 => pick(rng, &[u32::MAX as u64, 1 << 32, u64::MAX, 1 << 63]),
                _ => rng.gen_range(0..=8 * len as u64 + 9),
            };
            ops.push(json!({"op": "bitvec_read", "size": size, "bytes": hx(&bytes)}));
        }
        // duration / timestamp: valid `time::Duration`s (same sign, |nanos| < 10^9)
        let mut durs: Vec<(i64, i32)> = vec![
            (0, 0),
            (0, 1),
            (0, -1),
            (0, 999_999_999),
            (0, -999_999_999),
            (1, 0),
            (-1, 0),
            (-1, -1),
            (-1, -999_999_999),
            (1, 999_999_999),
            (i64::MAX, 0),
            (i64::MAX, 999_999_999),
            (i64::MAX - 1, 999_999_999),
            (i64::MIN + 1, 0),
            (i64::MIN + 1, -1),
            (i64::MIN + 1, -999_999_999),
            (i64::MIN, 0),
            (i64::MIN, -1),           // outside the property (build wraps); no monitor
            (i64::MIN, -999_999_999), // outside the property
        ];
        for _ in 0..k {
            let bits = rng.gen_range(0..64);
            let s: i64 = rng.gen::<i64>() >> bits;
            let n: i32 = rng.gen_range(0..1_000_000_000);
            durs.push(if s > 0 { (s, n) } else if s < 0 { (s, -n) } else { (0, if rng.gen() { n } else { -n }) });
        }
        for (s, n) in &durs {
            ops.push(json!({"op": "duration", "secs": s, "nanos": n}));
            ops.push(json!({"op": "timestamp", "secs": s, "nanos": n}));
        }
        // duration_read: any (seconds, nanos) pair
        let mut reads: Vec<(i64, i32)> = vec![
            (0, 0),
            (0, i32::MAX),
            (0, i32::MIN),
            (5, -1),
            (-5, 1),
            (1, -1_000_000_000),
            (-1, 1_000_000_000),
            (1, -1_000_000_001),
            (-1, 1_999_999_999),
            (0, 1_000_000_000),
            (0, -1_000_000_000),
            (i64::MAX, 999_999_999),
            (i64::MAX, -1),
            (i64::MAX, i32::MIN),
            (i64::MAX - 2, i32::MAX),
            (i64::MIN, -999_999_999),
            (i64::MIN, 1),
            (i64::MIN, i32::MAX),
            (i64::MIN + 2, i32::MIN),
        ];
        for _ in 0..k {
            let s: i64 = rng.gen::<i64>() >> rng.gen_range(0..64);
            let n: i32 = rng.gen::<i32>() >> rng.gen_range(0..32);
            reads.push((s, n));
        }
        // carry overflows included: the repaired `duration_from_parts` answers them with an error, not a panic
        reads.extend([(i64::MAX, 1_000_000_000), (i64::MAX, i32::MAX), (i64::MIN, -1_000_000_000), (i64::MIN, i32::MIN), (i64::MAX - 1, 2_000_000_000)]);
        for (s, n) in reads {
            ops.push(json!({"op": "duration_read", "secs": s, "nanos": n}));
        }
        // sockaddr
        for _ in 0..(k / 2).max(8) {
            let a = if rng.gen_bool(0.5) { e_sockaddr(rng) } else { std::net::SocketAddr::new(std::net::IpAddr::from(rng.gen::<[u8; 16]>()), rng.gen()) };
            let ip = match a.ip() {
                std::net::IpAddr::V4(ip) => ip.octets().to_vec(),
                std::net::IpAddr::V6(ip) => ip.octets().to_vec(),
            };
            ops.push(json!({"op": "sockaddr", "ip": hx(&ip), "port": a.port()}));
        }
        for len in 0..=20usize {
            let ip: Vec<u8> = (0..len).map(|_| rng.gen()).collect();
            let r: u32 = rng.gen();
            let port = pick(rng, &[0u32, 1, 65535, 65536, u32::MAX, r, r >> 16]);
            ops.push(json!({"op": "sockaddr_read", "ip": hx(&ip), "port": port}));
        }
        for len in [4usize, 16] {
            for port in [0u32, 65535, 65536, 65537, 1 << 31, u32::MAX] {
                let ip: Vec<u8> = (0..len).map(|_| rng.gen()).collect();
                ops.push(json!({"op": "sockaddr_read", "ip": hx(&ip), "port": port}));
            }
        }
        // tqc
        for _ in 0..(n / 6).max(12) {
            let variants = rt_variants(rng);
            let n_entries = rng.gen_range(0..=6usize);
            let mut keys: Vec<v2::ReplicaTimeout> = variants.choose_multiple(rng, n_entries).cloned().collect();
            if rng.gen_bool(0.3) {
                // unrelated entries as well
                keys.push(e_rt(rng));
            }
            let mut entries: Vec<(v2::ReplicaTimeout, v2::Signers)> = keys.into_iter().map(|k| (k, v2::Signers(e_bits(rng)))).collect();
            if !entries.is_empty() && rng.gen_bool(0.25) {
                // duplicate key with other signers: the later insert wins
                let (k, _) = entries[rng.gen_range(0..entries.len())].clone();
                let at = rng.gen_range(0..=entries.len());
                entries.insert(at, (k, v2::Signers(e_bits(rng))));
            }
            let view = e_view(rng);
            let sig = e_agg(rng);
            let mut orders: Vec<Vec<(v2::ReplicaTimeout, v2::Signers)>> = vec![];
            match rng.gen_range(0..4) {
                0 => {
                    entries.sort_by(|a, b| a.0.cmp(&b.0));
                    orders.push(entries.clone());
                    entries.reverse();
                    orders.push(entries.clone());
                }
                1 => {
                    for _ in 0..2 {
                        entries.shuffle(rng);
                        orders.push(entries.clone());
                    }
                }
                _ => {
                    entries.shuffle(rng);
                    orders.push(entries.clone());
                }
            }
            for es in orders {
                let ej: Vec<Value> = es.iter().map(|(m, s)| json!({"msg": rt_json(m), "signers": str_of_bits(&s.0)})).collect();
                ops.push(json!({"op": "tqc", "view": view_json(&view), "entries": ej, "sig": hx(&ByteFmt::encode(&sig))}));
            }
        }
        // schedule
        let key = |i: usize| hx(&ByteFmt::encode(&POOL.vkeys[i].public()));
        let sched = |vs: &[(usize, u64, bool)], freq: u64, mode: &str| -> Value {
            let v: Vec<Value> = vs.iter().map(|(i, w, l)| json!({"key": key(*i), "weight": w, "leader": l})).collect();
            json!({"op": "schedule", "validators": v, "freq": freq, "mode": mode})
        };
        let m = u64::MAX;
        let directed: Vec<Vec<(usize, u64, bool)>> = vec![
            vec![],
            vec![(0, 1, true)],
            vec![(0, 1, false)],
            vec![(0, 0, true)],
            vec![(0, 1, true), (0, 1, true)],
            vec![(0, 1, true), (1, 2, false), (0, 3, false)],
            vec![(0, 1, true), (1, 0, false)],
            vec![(0, 1, false), (1, 2, false), (2, 3, false)],
            vec![(0, m, true)],
            vec![(0, m - 1, true), (1, 1, false)],
            vec![(0, m, true), (1, 1, false)],
            vec![(0, 1, false), (1, m, true)],
            vec![(0, m / 2, true), (1, m / 2, true), (2, 1, false)],
            vec![(0, m / 2, true), (1, m / 2, true), (2, 2, false)],
            vec![(0, m / 2 + 1, true), (1, m / 2 + 1, true)],
            vec![(0, m, true), (1, m, true), (2, 2, true)], // wraps past 2^64 and back above 0
        ];
        for vs in &directed {
            let mode = if rng.gen() { "rr" } else { "weighted" };
            let freq = e_u64(rng);
            ops.push(sched(vs, freq, mode));
            if vs.len() > 1 {
                let mut r = vs.clone();
                r.reverse();
                ops.push(sched(&r, freq, mode));
            }
        }
        for _ in 0..(n / 15).max(8) {
            let cnt = rng.gen_range(1..=POOL.vkeys.len());
            let mut idx: Vec<usize> = (0..POOL.vkeys.len()).collect();
            idx.shuffle(rng);
            let mut vs: Vec<(usize, u64, bool)> = idx[..cnt].iter().map(|i| (*i, rng.gen_range(1..1000), rng.gen_bool(0.6))).collect();
            if rng.gen_bool(0.15) {
                let d = vs[rng.gen_range(0..vs.len())];
                vs.push((d.0, rng.gen_range(1..1000), rng.gen()));
            }
            if rng.gen_bool(0.1) {
                let i = rng.gen_range(0..vs.len());
                vs[i].1 = 0;
            }
            let mode = if rng.gen() { "rr" } else { "weighted" };
            let freq = rng.gen_range(0..10);
            // permutations of one set
            for _ in 0..rng.gen_range(1..=3) {
                vs.shuffle(rng);
                ops.push(sched(&vs, freq, mode));
            }
        }
        // muxhs
        for i in 0..(n / 6).max(16) {
            let caps = |rng: &mut StdRng| -> Vec<Value> {
                let cnt = if i < 6 { i % 3 } else { rng.gen_range(0..=16) };
                let mut ids: BTreeSet<u64> = BTreeSet::new();
                while ids.len() < cnt {
                    ids.insert(if rng.gen_bool(0.8) { rng.gen_range(0..32) } else { e_u64(rng) });
                }
                let mut v: Vec<u64> = ids.into_iter().collect();
                v.shuffle(rng);
                v.into_iter()
                    .map(|id| {
                        let r: u32 = rng.gen();
                        json!([id, pick(rng, &[0u32, 1, 100, u32::MAX, r])])
                    })
                    .collect()
            };
            let (a, c) = (caps(rng), caps(rng));
            ops.push(json!({"op": "muxhs", "accept": a, "connect": c}));
        }
    }
}

// ---------------------------------------------------------------------------------------------
// exec
// ---------------------------------------------------------------------------------------------

/// Runs `f` (implementation code) under `catch`; a panic is reported as a monitor failure and yields `None`.
fn guarded<T>(out: &mut Out, what: &str, input: &Value, f: impl FnOnce() -> T) -> Option<T> {
    match catch(f) {
        Ok(v) => Some(v),
        Err(site) => {
            out.oracle_fail(&site, &format!("{what} panicked"), input.clone());
            None
        }
    }
}

impl C09 {
    fn typed(&mut self, key: &str, seed: u64) -> Option<&dyn WireValue> {
        let hit = matches!(&self.memo, Some((k, s, _)) if k == key && *s == seed);
        if !hit {
            let v = make_value(&self.reg, key, seed)?;
            self.memo = Some((key.to_string(), seed, v));
        }
        self.memo.as_ref().map(|m| &*m.2)
    }

    fn exec_canon(&mut self, op: &Value, out: &mut Out) -> Value {
        let bytes = unhx(&op["bytes"]);
        let fam = op["fam"].as_str().unwrap_or("corpus").to_string();
        out.count(&format!("fam={fam}"));
        let desc = if op.get("table").is_some() {
            let Some(p) = self.syn.iter().find(|p| Some(p.key) == op["syn"].as_str()) else {
                return json!({"unknown_schema": true});
            };
            if p.table != op["table"] {
                out.oracle_fail("harness/synthetic-table", "the op's table is not the table of the synthetic pool", json!({"syn": p.key}));
            }
            match op["idx"].as_u64().and_then(|i| p.msgs.get(i as usize)) {
                Some(d) => d.clone(),
                None => return json!({"unknown_schema": true}),
            }
        } else {
            match op["schema"].as_str().and_then(|n| self.desc(n)) {
                Some(d) => d,
                None => return json!({"unknown_schema": true}),
            }
        };
        let input = op.clone();
        let expect = op.get("expect").map(unhx);
        let obs = match catch(|| canonical_raw(&bytes, &desc)) {
            Err(site) => {
                out.oracle_fail(&site, "canonical_raw panicked", input.clone());
                out.count("canon=panic");
                json!({"panic": site})
            }
            Ok(Ok(c)) => {
                out.count("canon=ok");
                if let Some(e) = &expect {
                    if *e != c {
                        out.oracle_fail(&format!("canonical_raw/reser:{fam}"), &format!("a valid re-serialisation normalises to {} instead of the canonical encoding", hx(&c)), input.clone());
                    }
                }
                // idempotence
                match catch(|| canonical_raw(&c, &desc)) {
                    Ok(Ok(c2)) if c2 == c => {}
                    Ok(Ok(c2)) => out.oracle_fail("canonical_raw/idempotence", &format!("canonical_raw(canonical_raw(b)) = {} differs from canonical_raw(b) = {}", hx(&c2), hx(&c)), input.clone()),
                    Ok(Err(e)) => out.oracle_fail("canonical_raw/idempotence", &format!("canonical_raw rejects its own output {}: {e:#}", hx(&c)), input.clone()),
                    Err(site) => out.oracle_fail(&site, "canonical_raw panicked on its own output", input.clone()),
                }
                // meaning preserved, as judged by an independent protobuf implementation (prost-reflect): if the
                // input is a message prost accepts, the canonical bytes are one too, and it is the same message
                let comparable = matches!(parse_msg(&bytes, &desc), Ok(g) if !several_oneof_members(&g, &desc));
                if !comparable {
                    out.count("meaning=skipped");
                } else if let Ok(Ok(m1)) = catch(|| DynamicMessage::decode(desc.clone(), &bytes[..])) {
                    out.count("meaning=compared");
                    match catch(|| DynamicMessage::decode(desc.clone(), &c[..])) {
                        Ok(Ok(m2)) => {
                            if m1.encode_to_vec() != m2.encode_to_vec() {
                                out.oracle_fail("canonical_raw/meaning", "prost decodes the canonical bytes to a different message than the input", input.clone());
                            }
                        }
                        Ok(Err(e)) => out.oracle_fail("canonical_raw/meaning", &format!("prost accepts the input but rejects the canonical bytes {}: {e}", hx(&c)), input.clone()),
                        Err(site) => out.oracle_fail(&site, "DynamicMessage::decode panicked", input.clone()),
                    }
                }
                json!({"ok": true, "out": hx(&c)})
            }
            Ok(Err(e)) => {
                out.count("canon=err");
                if expect.is_some() {
                    out.oracle_fail(&format!("canonical_raw/reser:{fam}"), &format!("a valid re-serialisation is rejected: {e:#}"), input.clone());
                }
                json!({"ok": false, "_err": format!("{e:#}")})
            }
        };
        // typed value monitors
        if let (Some(key), Some(seed)) = (op["ty"].as_str(), op["seed"].as_u64()) {
            let key = key.to_string();
            out.count(&format!("ty={key}"));
            self.value_monitors(op, &key, seed, &fam, &bytes, expect.as_deref(), out);
        }
        obs
    }

    fn value_monitors(&mut self, op: &Value, key: &str, seed: u64, fam: &str, bytes: &[u8], expect: Option<&[u8]>, out: &mut Out) {
        let Some(x) = self.typed(key, seed) else {
            out.oracle_fail("harness/unknown-type", "type key not registered", json!({"ty": key}));
            return;
        };
        let dbg = || trunc(x.debug(), 600);
        // the op line itself (replayable) + diagnostics under keys that `exec` ignores
        let input = |extra: Value| {
            let mut j = op.clone();
            j["_value"] = json!(dbg());
            j["_extra"] = extra;
            j
        };
        if fam != "prost" {
            // any valid serialisation decodes to the same value
            match catch(|| x.decode_eq(bytes)) {
                Ok(Ok(true)) => {}
                Ok(Ok(false)) => out.oracle_fail(&format!("{key}/decode-reser:{fam}"), "a valid re-serialisation decodes to a different value", input(Value::Null)),
                Ok(Err(e)) => out.oracle_fail(&format!("{key}/decode-reser:{fam}"), &format!("a valid re-serialisation does not decode: {e:#}"), input(Value::Null)),
                Err(site) => out.oracle_fail(&site, "decode panicked", input(Value::Null)),
            }
            return;
        }
        let Some(enc) = guarded(out, "encode", &input(Value::Null), || x.encode()) else { return };
        match catch(|| x.decode_eq(&enc)) {
            Ok(Ok(true)) => {}
            Ok(Ok(false)) => out.oracle_fail(&format!("{key}/decode-encode"), "decode(encode(x)) != x", input(json!({"enc": hx(&enc)}))),
            Ok(Err(e)) => out.oracle_fail(&format!("{key}/decode-encode"), &format!("decode(encode(x)) fails: {e:#}"), input(json!({"enc": hx(&enc)}))),
            Err(site) => out.oracle_fail(&site, "decode panicked", input(json!({"enc": hx(&enc)}))),
        }
        if let Some(c) = guarded(out, "canonical", &input(Value::Null), || x.canonical()) {
            if c != enc {
                out.oracle_fail(&format!("{key}/canonical-vs-encode"), "canonical(x) != encode(x)", input(json!({"enc": hx(&enc), "canonical": hx(&c)})));
            }
        }
        if let Some(p) = guarded(out, "build", &input(Value::Null), || x.prost_bytes()) {
            if p != bytes {
                out.oracle_fail(&format!("{key}/self-check"), "the op's bytes are not x.build().encode_to_vec() of the re-generated value", input(json!({"prost": hx(&p)})));
            }
        }
        if expect != Some(&enc[..]) {
            out.oracle_fail(&format!("{key}/self-check"), "the op's `expect` is not encode(x) of the re-generated value", input(json!({"enc": hx(&enc)})));
        }
        match catch(|| x.decode_eq(bytes)) {
            Ok(Ok(true)) => {}
            Ok(Ok(false)) => out.oracle_fail(&format!("{key}/decode-prost"), "decode(prost bytes) != x", input(Value::Null)),
            Ok(Err(e)) => out.oracle_fail(&format!("{key}/decode-prost"), &format!("decode(prost bytes) fails: {e:#}"), input(Value::Null)),
            Err(site) => out.oracle_fail(&site, "decode panicked", input(Value::Null)),
        }
        if let Some(Some((h, pre))) = guarded(out, "hash", &input(Value::Null), || x.hash_and_preimage()) {
            let want = Keccak256::new(&pre).as_bytes().to_vec();
            if h != want {
                out.oracle_fail(&format!("{key}/hash"), "x.hash() != keccak256(encode(x))", input(json!({"hash": hx(&h), "keccak": hx(&want)})));
            }
        }
    }

    fn exec_tqc(&mut self, op: &Value, out: &mut Out) -> Value {
        let view = view_of(&op["view"]);
        let sig = agg_of(&op["sig"]);
        let entries: Vec<(v2::ReplicaTimeout, v2::Signers)> = op["entries"]
            .as_array()
            .expect("entries")
            .iter()
            .map(|e| (rt_of(&e["msg"]), v2::Signers(bits_of_str(e["signers"].as_str().expect("signers")))))
            .collect();
        let input = op.clone();
        let q = tqc_build(&view, &entries, &sig);
        let enc = match catch(|| zksync_protobuf::encode(&q)) {
            Ok(e) => e,
            Err(site) => {
                out.oracle_fail(&site, "encode(TimeoutQC) panicked", input);
                return json!({"panic": site});
            }
        };
        match catch(|| zksync_protobuf::decode::<v2::TimeoutQC>(&enc)) {
            Ok(Ok(d)) if d == q => {}
            Ok(Ok(_)) => out.oracle_fail("TimeoutQC/decode-encode", "decode(encode(x)) != x", input.clone()),
            Ok(Err(e)) => out.oracle_fail("TimeoutQC/decode-encode", &format!("decode(encode(x)) fails: {e:#}"), input.clone()),
            Err(site) => out.oracle_fail(&site, "decode(TimeoutQC) panicked", input.clone()),
        }
        // the mechanism itself: on the wire the votes appear in strictly ascending key order (derived `Ord`)
        match vproto::TimeoutQcv2::decode(&enc[..]) {
            Ok(p) => {
                let keys: Result<Vec<v2::ReplicaTimeout>, _> = p.msgs.iter().map(ProtoFmt::read).collect();
                match keys {
                    Ok(keys) => {
                        if !keys.windows(2).all(|w| w[0] < w[1]) || p.msgs.len() != p.signers.len() || keys.len() != q.map.len() {
                            out.oracle_fail("TimeoutQC/wire-order", "msgs on the wire are not the map's keys in strictly ascending order", input.clone());
                        }
                    }
                    Err(e) => out.oracle_fail("TimeoutQC/wire-order", &format!("msgs do not read back: {e:#}"), input.clone()),
                }
            }
            Err(e) => out.oracle_fail("TimeoutQC/wire-order", &format!("encode(x) is not a TimeoutQCV2: {e}"), input.clone()),
        }
        let distinct = (0..entries.len()).all(|i| (0..i).all(|j| entries[i].0 != entries[j].0));
        out.count(if distinct { "tqc=distinct" } else { "tqc=dup-key" });
        if distinct {
            let msg_hash = |q: &v2::TimeoutQC| {
                let m = validator::Msg::Consensus(validator::ConsensusMsg::V2(v2::ChonkyMsg::ReplicaNewView(v2::ReplicaNewView {
                    justification: v2::ProposalJustification::Timeout(q.clone()),
                })));
                ByteFmt::encode(&m.hash())
            };
            let h = guarded(out, "Msg::hash", &input, || msg_hash(&q));
            let mut rev = entries.clone();
            rev.reverse();
            let mut shuf = entries.clone();
            shuf.shuffle(&mut StdRng::seed_from_u64(entries.len() as u64 ^ 0xC09));
            for (what, es) in [("reversed", rev), ("shuffled", shuf)] {
                let q2 = tqc_build(&view, &es, &sig);
                if let Some(e2) = guarded(out, "encode(TimeoutQC)", &input, || zksync_protobuf::encode(&q2)) {
                    if e2 != enc {
                        out.oracle_fail("TimeoutQC/insertion-order", &format!("the same entries inserted in {what} order encode differently"), input.clone());
                    }
                }
                if let Some(h2) = guarded(out, "Msg::hash", &input, || msg_hash(&q2)) {
                    if Some(&h2) != h.as_ref() {
                        out.oracle_fail("TimeoutQC/insertion-order-hash", &format!("the same entries inserted in {what} order hash differently"), input.clone());
                    }
                }
            }
        }
        json!({"enc": hx(&enc), "n": q.map.len()})
    }

    fn exec_schedule(&mut self, op: &Value, out: &mut Out) -> Value {
        let vs: Vec<validator::ValidatorInfo> = op["validators"]
            .as_array()
            .expect("validators")
            .iter()
            .map(|v| validator::ValidatorInfo {
                key: ByteFmt::decode(&unhx(&v["key"])).expect("public key"),
                weight: v["weight"].as_u64().expect("weight"),
                leader: v["leader"].as_bool().expect("leader"),
            })
            .collect();
        let sel = validator::LeaderSelection {
            frequency: op["freq"].as_u64().expect("freq"),
            mode: match op["mode"].as_str() {
                Some("rr") => validator::LeaderSelectionMode::RoundRobin,
                Some("weighted") => validator::LeaderSelectionMode::Weighted,
                m => panic!("mode {m:?}"),
            },
        };
        let input = op.clone();
        let run = |vs: Vec<validator::ValidatorInfo>| -> Result<Option<Vec<u8>>, String> {
            catch(|| validator::Schedule::new(vs, sel.clone()).ok().map(|s| zksync_protobuf::encode(&s)))
        };
        let r = match run(vs.clone()) {
            Ok(r) => r,
            Err(site) => {
                out.oracle_fail(&site, "Schedule::new / encode panicked", input);
                return json!({"panic": site});
            }
        };
        out.count(if r.is_some() { "schedule=ok" } else { "schedule=err" });
        let mut rev = vs.clone();
        rev.reverse();
        let mut shuf = vs.clone();
        shuf.shuffle(&mut StdRng::seed_from_u64(vs.len() as u64 ^ 0xC09));
        for (what, p) in [("reversed", rev), ("shuffled", shuf)] {
            match run(p) {
                Ok(r2) if r2 == r => {}
                Ok(_) => out.oracle_fail("Schedule/permutation", &format!("the same validators in {what} order give a different result"), input.clone()),
                Err(site) => out.oracle_fail(&site, "Schedule::new / encode panicked", input.clone()),
            }
        }
        if let Some(enc) = &r {
            match catch(|| zksync_protobuf::decode::<validator::Schedule>(enc)) {
                Ok(Ok(d)) if Some(zksync_protobuf::encode(&d)) == r => {}
                Ok(Ok(_)) => out.oracle_fail("Schedule/decode-encode", "encode(decode(encode(x))) != encode(x)", input.clone()),
                Ok(Err(e)) => out.oracle_fail("Schedule/decode-encode", &format!("decode(encode(x)) fails: {e:#}"), input.clone()),
                Err(site) => out.oracle_fail(&site, "decode(Schedule) panicked", input.clone()),
            }
        }
        // a genesis carrying this schedule: its hash is a function of the VALUE, so every serialisation of the same
        // genesis — the validators listed in any order (a hand-written config, another implementation's encoder) —
        // decodes to an equal genesis with the same hash, and the hash is keccak(canonical encoding of the value)
        if r.is_some() {
            if let Ok(s) = validator::Schedule::new(vs.clone(), sel.clone()) {
                let raw = validator::GenesisRaw {
                    chain_id: validator::ChainId(1337),
                    fork_number: validator::ForkNumber(op["freq"].as_u64().unwrap_or(0) % 5),
                    protocol_version: validator::ProtocolVersion::CURRENT,
                    first_block: validator::BlockNumber(vs.len() as u64),
                    validators_schedule: Some(s),
                };
                let g = raw.clone().with_hash();
                let built = ProtoFmt::build(&g);
                let n = vs.len();
                let mut perms: Vec<(&str, Vec<usize>)> = vec![("as built", (0..n).collect()), ("reversed", (0..n).rev().collect())];
                let mut sh: Vec<usize> = (0..n).collect();
                sh.shuffle(&mut StdRng::seed_from_u64(n as u64 ^ 0x6E5));
                perms.push(("shuffled", sh));
                for (what, perm) in perms {
                    let mut q = built.clone();
                    if let Some(sched) = q.validators_schedule.as_mut() {
                        let orig = sched.validators.clone();
                        sched.validators = perm.iter().map(|i| orig[*i].clone()).collect();
                    }
                    let bytes = q.encode_to_vec();
                    out.count("genesis_wire_order");
                    match catch(|| zksync_protobuf::decode::<validator::Genesis>(&bytes)) {
                        Ok(Ok(d)) => {
                            let recomputed = (*d).clone().with_hash().hash();
                            if d.hash() != g.hash() || d != g {
                                out.oracle_fail("Genesis/wire-order", &format!("the same genesis serialised with its validators {what} decodes to a genesis with a different hash"), input.clone());
                            } else if d.hash() != recomputed {
                                out.oracle_fail("Genesis/hash", "hash of a decoded genesis is not keccak(canonical encoding of its value)", input.clone());
                            } else if zksync_protobuf::encode(&d) != zksync_protobuf::encode(&g) || zksync_protobuf::canonical(&d) != zksync_protobuf::canonical(&g) {
                                out.oracle_fail("Genesis/wire-order", &format!("the same genesis serialised with its validators {what} re-encodes differently"), input.clone());
                            }
                        }
                        Ok(Err(e)) => out.oracle_fail("Genesis/wire-order", &format!("a serialisation of a valid genesis (validators {what}) is refused: {e:#}"), input.clone()),
                        Err(site) => out.oracle_fail(&site, "decode(Genesis) panicked", input.clone()),
                    }
                }
            }
        }
        match r {
            Some(enc) => json!({"ok": true, "enc": hx(&enc)}),
            None => json!({"ok": false}),
        }
    }

    fn exec_muxhs(&mut self, op: &Value, out: &mut Out) -> Value {
        let caps = |k: &str| -> Vec<(u64, u32)> {
            op[k]
                .as_array()
                .expect("caps")
                .iter()
                .map(|e| (e[0].as_u64().expect("id"), e[1].as_u64().expect("max") as u32))
                .collect()
        };
        let (a, c) = (caps("accept"), caps("connect"));
        out.count(if a.len().max(c.len()) >= 2 { "muxhs>=2" } else { "muxhs<2" });
        let input = op.clone();
        let h1 = wire::mux_handshake(a.clone(), c.clone(), false);
        let enc = match catch(|| h1.encode()) {
            Ok(e) => e,
            Err(site) => {
                out.oracle_fail(&site, "encode(mux::Handshake) panicked", input);
                return json!({"panic": site});
            }
        };
        // the same maps built a second time (fresh HashMaps, reversed insertion order)
        let h2 = wire::mux_handshake(a.clone(), c.clone(), true);
        for (what, h) in [("a second time", wire::mux_handshake(a, c, false)), ("in reversed insertion order", h2)] {
            if let Some(e2) = guarded(out, "encode(mux::Handshake)", &input, || h.encode()) {
                if e2 != enc {
                    out.oracle_fail(
                        "mux::Handshake/encode-nondeterministic",
                        &format!("two equal handshakes (maps built {what}) encode differently: {} vs {}", hx(&enc), hx(&e2)),
                        input.clone(),
                    );
                }
            }
        }
        match catch(|| h1.decode_eq(&enc)) {
            Ok(Ok(true)) => {}
            Ok(Ok(false)) => out.oracle_fail("mux::Handshake/decode-encode", "decode(encode(x)) != x", input.clone()),
            Ok(Err(e)) => out.oracle_fail("mux::Handshake/decode-encode", &format!("decode(encode(x)) fails: {e:#}"), input.clone()),
            Err(site) => out.oracle_fail(&site, "decode(mux::Handshake) panicked", input.clone()),
        }
        json!({"enc": hx(&enc)})
    }

    fn exec_std(&mut self, kind: &str, op: &Value, out: &mut Out) -> Value {
        use zksync_protobuf::proto::std as pstd;
        let input = op.clone();
        match kind {
            "bitvec" => {
                let s = op["bits"].as_str().expect("bits");
                let v = bits_of_str(s);
                let Some(enc) = guarded(out, "encode(BitVec)", &input, || zksync_protobuf::encode(&v)) else { return json!({"panic": "encode"}) };
                let rt = matches!(catch(|| zksync_protobuf::decode::<BitVec>(&enc)), Ok(Ok(d)) if d == v);
                if !rt {
                    out.oracle_fail("BitVec/decode-encode", "decode(encode(x)) != x", input.clone());
                }
                // the same bits, built another way
                let bytes: Vec<u8> = s.as_bytes().chunks(8).map(|c| c.iter().enumerate().fold(0u8, |a, (i, b)| a | (((*b == b'1') as u8) << (7 - i)))).collect();
                let mut v2 = BitVec::from_bytes(&bytes);
                v2.truncate(s.len());
                let v3 = BitVec::from_fn(s.len(), |i| s.as_bytes()[i] == b'1');
                for (what, w) in [("from_bytes+truncate", v2), ("from_fn", v3)] {
                    if zksync_protobuf::encode(&w) != enc {
                        out.oracle_fail("BitVec/construction", &format!("the same bits built with {what} encode differently"), input.clone());
                    }
                }
                json!({"enc": hx(&enc), "rt": rt})
            }
            "bitvec_read" => {
                let p = pstd::BitVector { size: Some(op["size"].as_u64().expect("size")), bytes: Some(unhx(&op["bytes"])) };
                match catch(|| zksync_protobuf::decode::<BitVec>(&p.encode_to_vec())) {
                    Ok(Ok(b)) => json!({"ok": true, "bits": str_of_bits(&b)}),
                    Ok(Err(_)) => json!({"ok": false}),
                    Err(site) => {
                        out.oracle_fail(&site, "decode(BitVector) panicked", input);
                        json!({"panic": site})
                    }
                }
            }
            "duration" | "timestamp" => {
                let (s, n) = (op["secs"].as_i64().expect("secs"), op["nanos"].as_i64().expect("nanos") as i32);
                let d = time::Duration::new(s, n);
                let r = if kind == "duration" {
                    catch(|| {
                        let p = d.build();
                        let enc = zksync_protobuf::encode(&d);
                        let rt = matches!(zksync_protobuf::decode::<time::Duration>(&enc), Ok(x) if x == d);
                        (p.seconds, p.nanos, enc, rt)
                    })
                } else {
                    catch(|| {
                        let t = time::UNIX_EPOCH + d;
                        let p = t.build();
                        let enc = zksync_protobuf::encode(&t);
                        let rt = matches!(zksync_protobuf::decode::<time::Utc>(&enc), Ok(x) if x == t);
                        (p.seconds, p.nanos, enc, rt)
                    })
                };
                match r {
                    Ok((ps, pn, enc, rt)) => {
                        if !rt && s > i64::MIN {
                            out.oracle_fail(&format!("{kind}/decode-encode"), "decode(encode(x)) != x", input.clone());
                        }
                        // std.proto: "Non-negative fractions of a second ... Must be from 0 to 999,999,999 inclusive"
                        if !matches!(pn, Some(n) if (0..1_000_000_000).contains(&n)) {
                            out.oracle_fail(&format!("{kind}/nanos-range"), "the nanos field on the wire is outside 0..=999_999_999", input);
                        }
                        json!({"enc": hx(&enc), "secs": ps, "nanos": pn, "rt": rt})
                    }
                    Err(site) => {
                        out.oracle_fail(&site, "build/encode/decode panicked", input);
                        json!({"panic": site})
                    }
                }
            }
            "duration_read" => {
                let p = pstd::Duration { seconds: Some(op["secs"].as_i64().expect("secs")), nanos: Some(op["nanos"].as_i64().expect("nanos") as i32) };
                match catch(|| zksync_protobuf::decode::<time::Duration>(&p.encode_to_vec())) {
                    Ok(Ok(d)) => json!({"ok": true, "secs": d.whole_seconds(), "nanos": d.subsec_nanoseconds()}),
                    Ok(Err(_)) => json!({"ok": false}),
                    Err(site) => {
                        out.oracle_fail(&site, "decode(Duration) panicked", input);
                        json!({"panic": site})
                    }
                }
            }
            "sockaddr" => {
                let ip = unhx(&op["ip"]);
                let port = op["port"].as_u64().expect("port") as u16;
                let a = match ip.len() {
                    4 => std::net::SocketAddr::V4(std::net::SocketAddrV4::new(<[u8; 4]>::try_from(&ip[..]).unwrap().into(), port)),
                    16 => std::net::SocketAddr::V6(std::net::SocketAddrV6::new(<[u8; 16]>::try_from(&ip[..]).unwrap().into(), port, 0, 0)),
                    n => panic!("sockaddr op: ip of {n} bytes"),
                };
                match catch(|| {
                    let enc = zksync_protobuf::encode(&a);
                    let rt = matches!(zksync_protobuf::decode::<std::net::SocketAddr>(&enc), Ok(x) if x == a);
                    (enc, rt)
                }) {
                    Ok((enc, rt)) => {
                        if !rt {
                            out.oracle_fail("SocketAddr/decode-encode", "decode(encode(x)) != x", input);
                        }
                        json!({"enc": hx(&enc), "rt": rt})
                    }
                    Err(site) => {
                        out.oracle_fail(&site, "encode/decode(SocketAddr) panicked", input);
                        json!({"panic": site})
                    }
                }
            }
            "sockaddr_read" => {
                let p = pstd::SocketAddr { ip: Some(unhx(&op["ip"])), port: Some(op["port"].as_u64().expect("port") as u32) };
                match catch(|| zksync_protobuf::decode::<std::net::SocketAddr>(&p.encode_to_vec())) {
                    Ok(r) => json!({"ok": r.is_ok()}),
                    Err(site) => {
                        out.oracle_fail(&site, "decode(SocketAddr) panicked", input);
                        json!({"panic": site})
                    }
                }
            }
            _ => unreachable!(),
        }
    }
}

impl C09 {
    fn gen_buildcheck(&self, ops: &mut Vec<Value>) {
        for (name, text) in BUILD_CASES {
            let set = compile_standalone(text).unwrap_or_else(|e| panic!("build case {name}: {e}"));
            let pool = SynPool::new("buildcheck", set);
            ops.push(json!({"op": "buildcheck", "case": name, "proto": text, "table": pool.table}));
        }
    }

    /// `canonical::check` (through `Config::generate`) on the op's `.proto` text; the model evaluates
    /// `supportsCanonical` on the op's table (= the descriptors of the same text).
    fn exec_buildcheck(&mut self, op: &Value, out: &mut Out) -> Value {
        let text = op["proto"].as_str().expect("proto").to_string();
        let input = op.clone();
        let set = match compile_standalone(&text) {
            Ok(s) => s,
            Err(e) => return json!({"bad_op": true, "_err": e}),
        };
        let pool = SynPool::new("buildcheck", set);
        if pool.table != op["table"] {
            out.oracle_fail("harness/buildcheck-table", "the op's table is not the descriptor table of its proto text", input.clone());
        }
        let want = restriction_holds(&pool);
        match catch(|| run_build_check(&scratch_dir(), &text)) {
            Ok(r) => {
                let got = r.is_ok();
                if got != want {
                    out.oracle_fail(
                        "protobuf_build/canonical-check",
                        &format!("the build-time check {} a schema that {} the canonical-encoding restriction ({})",
                                 if got { "accepts" } else { "rejects" }, if want { "satisfies" } else { "violates" },
                                 r.as_ref().err().cloned().unwrap_or_default()),
                        input,
                    );
                }
                out.count(if got { "buildcheck=accepted" } else { "buildcheck=rejected" });
                json!({"ok": got, "_err": r.err()})
            }
            Err(site) => {
                out.oracle_fail(&site, "Config::generate panicked", input);
                json!({"panic": site})
            }
        }
    }
}

impl Prop for C09 {
    fn gen(&mut self, opts: &Opts) -> Vec<Value> {
        let rng = &mut opts.rng();
        let mut ops = vec![json!({"op": "names"})];
        for n in &self.names {
            ops.push(json!({"op": "schema", "name": n}));
        }
        self.gen_buildcheck(&mut ops);
        self.gen_conv(&mut ops, rng, opts.n);
        self.gen_f9(&mut ops, rng);
        self.gen_generic(&mut ops, rng, opts.n);
        self.gen_typed(&mut ops, rng, opts.n);
        ops
    }

    fn exec(&mut self, op: &Value, out: &mut Out) -> Value {
        let kind = op["op"].as_str().unwrap_or("?").to_string();
        out.count(&format!("op={kind}"));
        match kind.as_str() {
            "canon" => self.exec_canon(op, out),
            "names" => json!({"names": self.names}),
            "schema" => match op["name"].as_str().and_then(|n| self.desc(n)) {
                Some(m) => schema_obs(&m),
                None => json!({"known": false}),
            },
            "buildcheck" => self.exec_buildcheck(op, out),
            "tqc" => self.exec_tqc(op, out),
            "schedule" => self.exec_schedule(op, out),
            "muxhs" => self.exec_muxhs(op, out),
            "bitvec" | "bitvec_read" | "duration" | "timestamp" | "duration_read" | "sockaddr" | "sockaddr_read" => self.exec_std(&kind, op, out),
            _ => json!({"bad_op": true}),
        }
    }

    fn extra_stats(&self) -> Value {
        json!({
            "types": self.reg.len(),
            "schemas": self.names.len(),
            "synthetic_messages": self.syn.iter().map(|p| p.msgs.len()).sum::<usize>(),
            "generic_targets": self.generic_targets().len(),
        })
    }
}

fn main() {
    vharness::main_for(&mut C09::new());
}
