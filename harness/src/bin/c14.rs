//! C14: the stream multiplexer (`network/src/mux`) against the Lean model `Model/Mux.lean`.
//!
//! Two kinds of session (first op of a session is `init`, which carries `"reset": true`):
//!  * `raw`  — one real `Mux` over an in-memory transport; the harness plays the peer at the wire level
//!             (cooperative, never-reading application, flow-control-ignoring sender, more streams than agreed,
//!             frames for unknown ids, malformed headers);
//!  * `pair` — two real `Mux` instances back to back, application workload of tagged byte streams.
//! Every op is followed by run-to-quiescence on a current-thread runtime (the runtime's `on_thread_park`
//! callback fires exactly when no task is runnable), so the observation of an op is schedule-independent.
//!
//! Back-pressure on the write path: `win` (raw: the peer announces how many more bytes it takes) and `cap` (pair: the
//! pipe between the two muxes holds a bounded number of unread bytes) make the transport turn the writer task away, so
//! that the slot of the channel `write_send` stays occupied and `write_all` / `flush` block in its reservation.
//! `cwrite` / `cflush` run `write_all` / `flush` under a context of their own; a call that is still suspended once the
//! runtime is quiescent is blocked for good, and the harness cancels its context ("canceled"). The sub-stream is then
//! used on. Monitors: at CLOSE on the wire, after a successful flush, and at end-of-stream on the peer's reader, the
//! payload has to be the concatenation over the write_all calls of all data (Ok) | some prefix (cancelled) (`explain`).
use std::{
    collections::{BTreeMap, BTreeSet, VecDeque},
    pin::Pin,
    sync::{
        atomic::{AtomicBool, Ordering},
        Arc, Mutex,
    },
    task::{Context, Poll, Waker},
};

use rand::{rngs::StdRng, Rng};
use serde_json::{json, Value};
use vharness::{catch, Opts, Out, Prop};
use zksync_concurrency::{ctx, io, time};
use zksync_consensus_network::{proto::mux as pb, verif::mux as hook};

// ------------------------------------------------------------------------------------------------
// wire constants of the peer played by the harness (an independent implementation of the wire format:
// if the repository changes its header layout, this peer and the real Mux disagree)
const FK_OPEN: u16 = 0x0000;
const FK_DATA: u16 = 0x4000;
const FK_CLOSE: u16 = 0x8000;
const FK_MASK: u16 = 0xC000;
const SK_CONNECT: u16 = 0x2000;
const ID_MASK: u16 = 0x1FFF;

// ------------------------------------------------------------------------------------------------
// quiescence detection
static IDLE: AtomicBool = AtomicBool::new(false);
static QWAKER: Mutex<Option<Waker>> = Mutex::new(None);

fn on_park() {
    IDLE.store(true, Ordering::SeqCst);
    if let Some(w) = QWAKER.lock().unwrap().take() {
        w.wake();
    }
}

/// Completes when the runtime is about to park, i.e. when no spawned task is runnable.
struct Quiesce {
    armed: bool,
}
impl std::future::Future for Quiesce {
    type Output = ();
    fn poll(mut self: Pin<&mut Self>, cx: &mut Context<'_>) -> Poll<()> {
        if !self.armed {
            self.armed = true;
            IDLE.store(false, Ordering::SeqCst);
            *QWAKER.lock().unwrap() = Some(cx.waker().clone());
            return Poll::Pending;
        }
        if IDLE.load(Ordering::SeqCst) {
            Poll::Ready(())
        } else {
            *QWAKER.lock().unwrap() = Some(cx.waker().clone());
            Poll::Pending
        }
    }
}

// ------------------------------------------------------------------------------------------------
// in-memory transport. Without back-pressure, written bytes become visible to the reader only on flush (like the noise
// stream). With back-pressure configured (`limit` / `cap`) it is a bounded pipe: every complete frame is visible at once,
// and so is everything written before when the writer is turned away.
// Back-pressure acts between two mux frames (the transport follows the frame structure of what is written to it with a
// parser of its own): the writer may start a frame only while `wtotal < limit` (raw sessions: the peer played by the
// harness announces how many bytes it is going to take) and while fewer than `cap` accepted bytes are unread (pair
// sessions: a bounded pipe whose reader is the other mux).
#[derive(Default)]
struct Chan {
    buf: VecDeque<u8>,
    pending: Vec<u8>,
    eof: bool,
    waker: Option<Waker>,
    total_read: usize,
    /// every byte that ever became visible
    log: Vec<u8>,
    /// bytes accepted from the writer
    wtotal: usize,
    limit: Option<usize>,
    cap: Option<usize>,
    /// the writer, parked because the transport does not take a new frame
    wwaker: Option<Waker>,
    fp: FrameParser,
    /// how many times a writer was turned away
    turned_away: usize,
}
type ChanRef = Arc<Mutex<Chan>>;

/// Where in the byte stream written by a mux we are: handshake (u32 length + body), then frames.
#[derive(Default)]
struct FrameParser {
    /// 0 handshake length, 1 handshake body, 2 frame header, 3 DATA length, 4 DATA payload
    phase: u8,
    /// bytes of the current 2/4-byte field collected so far
    c: usize,
    acc: [u8; 4],
    /// bytes of the current body / payload still to come
    rem: usize,
}
impl FrameParser {
    fn at_frame_start(&self) -> bool {
        self.phase == 2 && self.c == 0
    }
    fn feed(&mut self, b: u8) {
        match self.phase {
            0 => {
                self.acc[self.c] = b;
                self.c += 1;
                if self.c == 4 {
                    self.rem = u32::from_le_bytes(self.acc) as usize;
                    self.c = 0;
                    self.phase = if self.rem == 0 { 2 } else { 1 };
                }
            }
            1 | 4 => {
                self.rem -= 1;
                if self.rem == 0 {
                    self.phase = 2;
                }
            }
            2 => {
                self.acc[self.c] = b;
                self.c += 1;
                if self.c == 2 {
                    let hdr = u16::from_le_bytes([self.acc[0], self.acc[1]]);
                    self.c = 0;
                    self.phase = if hdr & FK_MASK == FK_DATA { 3 } else { 2 };
                }
            }
            _ => {
                self.acc[self.c] = b;
                self.c += 1;
                if self.c == 2 {
                    self.rem = u16::from_le_bytes([self.acc[0], self.acc[1]]) as usize;
                    self.c = 0;
                    self.phase = if self.rem == 0 { 2 } else { 4 };
                }
            }
        }
    }
}
impl Chan {
    fn closed_for_frame(&self) -> bool {
        self.limit.is_some_and(|l| self.wtotal >= l) || self.cap.is_some_and(|c| self.wtotal - self.total_read >= c)
    }
    fn make_visible(&mut self) {
        let p = std::mem::take(&mut self.pending);
        self.buf.extend(p.iter().copied());
        self.log.extend_from_slice(&p);
        if let Some(w) = self.waker.take() {
            w.wake();
        }
    }
}
fn chan_wake_writer(c: &ChanRef) {
    if let Some(w) = c.lock().unwrap().wwaker.take() {
        w.wake();
    }
}

fn chan_push(c: &ChanRef, bytes: &[u8]) {
    let mut g = c.lock().unwrap();
    g.buf.extend(bytes.iter().copied());
    g.log.extend_from_slice(bytes);
    if let Some(w) = g.waker.take() {
        w.wake();
    }
}
fn chan_eof(c: &ChanRef) {
    let mut g = c.lock().unwrap();
    g.eof = true;
    if let Some(w) = g.waker.take() {
        w.wake();
    }
}

struct Endpoint {
    rx: ChanRef,
    tx: ChanRef,
}
impl io::AsyncRead for Endpoint {
    fn poll_read(self: Pin<&mut Self>, cx: &mut Context<'_>, buf: &mut io::ReadBuf<'_>) -> Poll<io::Result<()>> {
        let mut g = self.rx.lock().unwrap();
        if g.buf.is_empty() {
            if g.eof {
                return Poll::Ready(Ok(()));
            }
            g.waker = Some(cx.waker().clone());
            return Poll::Pending;
        }
        let n = std::cmp::min(buf.remaining(), g.buf.len());
        for _ in 0..n {
            let b = g.buf.pop_front().unwrap();
            buf.put_slice(&[b]);
        }
        g.total_read += n;
        if let Some(w) = g.wwaker.take() {
            w.wake();
        }
        Poll::Ready(Ok(()))
    }
}
impl io::AsyncWrite for Endpoint {
    fn poll_write(self: Pin<&mut Self>, cx: &mut Context<'_>, buf: &[u8]) -> Poll<io::Result<usize>> {
        let mut g = self.tx.lock().unwrap();
        let mut n = 0;
        for &b in buf {
            if g.fp.at_frame_start() && g.closed_for_frame() {
                break;
            }
            g.fp.feed(b);
            g.pending.push(b);
            g.wtotal += 1;
            n += 1;
        }
        // a bounded pipe does not hold bytes back until a flush: every complete frame is visible at once
        if (g.limit.is_some() || g.cap.is_some()) && g.fp.at_frame_start() && n > 0 {
            g.make_visible();
        }
        if n == 0 && !buf.is_empty() {
            g.make_visible();
            g.wwaker = Some(cx.waker().clone());
            g.turned_away += 1;
            return Poll::Pending;
        }
        Poll::Ready(Ok(n))
    }
    fn poll_flush(self: Pin<&mut Self>, _cx: &mut Context<'_>) -> Poll<io::Result<()>> {
        self.tx.lock().unwrap().make_visible();
        Poll::Ready(Ok(()))
    }
    fn poll_shutdown(self: Pin<&mut Self>, _cx: &mut Context<'_>) -> Poll<io::Result<()>> {
        Poll::Ready(Ok(()))
    }
}

// ------------------------------------------------------------------------------------------------
fn hex(b: &[u8]) -> String {
    hex::encode(b)
}
/// payload bytes of an op: byte i = (seed + i) mod 251
fn payload(n: usize, seed: u64) -> Vec<u8> {
    (0..n).map(|i| ((seed as usize + i) % 251) as u8).collect()
}
fn caps_of(v: &Value) -> Vec<(u64, u32)> {
    v.as_array()
        .map(|a| a.iter().map(|p| (p[0].as_u64().unwrap_or(0), p[1].as_u64().unwrap_or(0) as u32)).collect())
        .unwrap_or_default()
}
/// BTreeMap semantics: ascending capability, later entries replace earlier ones.
fn cap_map(v: &[(u64, u32)]) -> BTreeMap<u64, u32> {
    v.iter().copied().collect()
}
/// The harness's own computation of the stream-id partition: `(cap, base, count)`.
fn ranges(local: &BTreeMap<u64, u32>, peer: &[(u64, u32)]) -> Vec<(u64, u32, u32)> {
    let peer: BTreeMap<u64, u32> = peer.iter().copied().collect();
    let mut base = 0;
    let mut r = vec![];
    for (c, m) in local {
        let n = std::cmp::min(*m, *peer.get(c).unwrap_or(&0));
        r.push((*c, base, n));
        base += n;
    }
    r
}

#[derive(Clone, Debug, PartialEq)]
struct WFrame {
    hdr: u16,
    data: Vec<u8>,
}
/// Independent frame parser for bytes the mux wrote. Returns the parsed frames and the number of bytes used.
fn parse_frames(b: &[u8]) -> (Vec<WFrame>, usize) {
    let mut i = 0;
    let mut r = vec![];
    loop {
        if b.len() < i + 2 {
            break;
        }
        let hdr = u16::from_le_bytes([b[i], b[i + 1]]);
        if hdr & FK_MASK == FK_DATA {
            if b.len() < i + 4 {
                break;
            }
            let n = u16::from_le_bytes([b[i + 2], b[i + 3]]) as usize;
            if b.len() < i + 4 + n {
                break;
            }
            r.push(WFrame { hdr, data: b[i + 4..i + 4 + n].to_vec() });
            i += 4 + n;
        } else {
            r.push(WFrame { hdr, data: vec![] });
            i += 2;
        }
    }
    (r, i)
}
fn fk_code(hdr: u16) -> u64 {
    match hdr & FK_MASK {
        FK_OPEN => 0,
        FK_DATA => 1,
        FK_CLOSE => 2,
        _ => 3,
    }
}

// ------------------------------------------------------------------------------------------------
/// How a `write_all` call of the application ended.
#[derive(Clone, Copy, Debug, PartialEq)]
enum WR {
    Ok,
    /// the context of the call was cancelled by the harness while the call was suspended
    Canceled,
    Err,
    /// still in flight
    Pending,
}
/// One `write_all` call on a transient stream.
#[derive(Clone, Debug)]
struct WRec {
    data: Vec<u8>,
    res: WR,
}

/// The oracle for "data written on a transient sub-stream is received complete and in order": `got` has to be
/// (`complete`: exactly; otherwise: a prefix of) the concatenation, in call order, of ALL the data of every `write_all`
/// that returned Ok and of SOME prefix of the data of every `write_all` that did not (cancelled, failed, in flight).
/// `Err` describes the first write that cannot be placed: the hole.
fn explain(recs: &[WRec], got: &[u8], complete: bool) -> Result<(), String> {
    let mut offs: BTreeSet<usize> = [0].into();
    for (i, r) in recs.iter().enumerate() {
        let mut next = BTreeSet::new();
        for &o in &offs {
            let rest = &got[o..];
            let common = rest.iter().zip(r.data.iter()).take_while(|(a, b)| a == b).count();
            if r.res == WR::Ok {
                if common == r.data.len() {
                    next.insert(o + common);
                } else if !complete && common == rest.len() {
                    // `got` ends inside this write
                    return Ok(());
                }
            } else {
                for j in 0..=common {
                    next.insert(o + j);
                }
            }
        }
        if next.is_empty() {
            let o = *offs.iter().next_back().unwrap();
            let rest = &got[o..];
            let common = rest.iter().zip(r.data.iter()).take_while(|(a, b)| a == b).count();
            let hist: Vec<String> = recs[..=i].iter().map(|r| format!("{}:{:?}", r.data.len(), r.res)).collect();
            return Err(format!(
                "write_all #{i} ({} bytes, returned Ok) is not there: at offset {o} of the {} bytes only its first {common} bytes follow, then {} (calls so far [len:result]: {})",
                r.data.len(),
                got.len(),
                if o + common < got.len() { format!("byte {:#04x} where {:#04x} was written", got[o + common], r.data[common]) } else { "the data ends".into() },
                hist.join(" ")
            ));
        }
        offs = next;
    }
    if offs.contains(&got.len()) {
        Ok(())
    } else {
        let o = *offs.iter().next_back().unwrap();
        Err(format!("{} bytes beyond everything the {} write_all calls can account for", got.len() - o, recs.len()))
    }
}

type Cell<T> = Arc<Mutex<Option<T>>>;
fn cell<T>() -> Cell<T> {
    Arc::new(Mutex::new(None))
}

enum SlotSt {
    Opening { q: usize, cap: u64, res: Cell<hook::Stream> },
    Held(Held),
}
struct Held {
    conn: bool,
    id: u16,
    cap: u64,
    read: Option<hook::ReadHalf>,
    write: Option<hook::WriteHalf>,
    /// a read_exact in flight: (n, result cell)
    reading: Option<(usize, Cell<(hook::ReadHalf, Result<Vec<u8>, String>)>)>,
    read_dropped: bool,
    write_dropped: bool,
    /// index of this transient stream among those handed out on its reusable stream
    sess: usize,
    /// bytes this slot has read so far
    got: Vec<u8>,
    nread: usize,
    /// read_exact calls issued on this slot
    reads_issued: usize,
    /// raw mode: `sent_total` of the peer at hand-over
    handover_off: usize,
}

struct Side {
    cfg: [u64; 4],
    acc: BTreeMap<u64, u32>,
    con: BTreeMap<u64, u32>,
    qs: [BTreeMap<u64, hook::Queue>; 2],
    /// partition computed by the harness: [accept, connect]
    rng: [Vec<(u64, u32, u32)>; 2],
    run: Cell<Result<(), hook::RunError>>,
    slots: BTreeMap<u64, SlotSt>,
    inp: ChanRef,
    outp: ChanRef,
    out_off: usize,
    /// number of transient streams handed out so far per reusable stream
    nsess: BTreeMap<(bool, u16), usize>,
    /// the write_all calls per (conn, id, session) of this side's application, and whether the write half was dropped
    written: BTreeMap<(bool, u16, usize), (Vec<WRec>, bool)>,
    /// sender-side monitor: per (conn,id): automaton state (0 idle,1 open), data emitted in the current session
    tx_state: BTreeMap<(bool, u16), (u8, Vec<u8>, usize)>,
    /// pending connect-opens without a known id, per capability (FIFO)
    pend_con: BTreeMap<u64, VecDeque<u64>>,
    /// slot -> id reserved for a pending connect-open
    reserved: BTreeMap<u64, u16>,
}

/// What the raw peer has sent: per (local conn, id) the sessions (payload bytes after each OPEN, closed?) and
/// whether its sequence on that key is well-formed so far.
#[derive(Default)]
struct PeerKey {
    sessions: Vec<(Vec<u8>, bool)>,
    open: bool,
    wf: bool,
}
struct SentFrame {
    conn: bool,
    id: u16,
    is_data: bool,
    /// byte offsets in the peer's byte stream: start of header, start of payload, end
    start: usize,
    pstart: usize,
    end: usize,
    known: bool,
}

struct Session {
    rt: tokio::runtime::Runtime,
    clock: ctx::ManualClock,
    ctx: Arc<ctx::Ctx>,
    raw: bool,
    sides: Vec<Side>,
    peer: BTreeMap<(bool, u16), PeerKey>,
    sent: Vec<SentFrame>,
    sent_total: usize,
    hs_len: usize,
    op_no: usize,
    /// the record of the write_all started by the current op
    last_rec: Option<(usize, (bool, u16, usize))>,
    /// (cancellations of a call suspended while the writer task was parked on the transport, other cancellations)
    cancels: (usize, usize),
}

pub struct C14 {
    sess: Option<Session>,
    trace: Vec<Value>,
    /// (side, slot) of a `flush` that just returned Ok
    flushed: Option<(usize, u64)>,
}

fn run_class(r: &Cell<Result<(), hook::RunError>>) -> &'static str {
    match &*r.lock().unwrap() {
        None => "up",
        Some(Ok(())) => "ok",
        Some(Err(hook::RunError::Config(_))) => "config",
        Some(Err(hook::RunError::Canceled)) => "canceled",
        Some(Err(hook::RunError::Closed)) => "closed",
        Some(Err(hook::RunError::Protocol(_))) => "protocol",
        Some(Err(hook::RunError::IO(_))) => "io",
    }
}

fn encode_hs(acc: &[(u64, u32)], con: &[(u64, u32)]) -> Vec<u8> {
    use prost::Message as _;
    let f = |v: &[(u64, u32)]| {
        v.iter().map(|(c, m)| pb::handshake::Capability { id: Some(*c), max_streams: Some(*m) }).collect::<Vec<_>>()
    };
    let h = pb::Handshake { accept: f(acc), connect: f(con) };
    let body = h.encode_to_vec();
    let mut r = (body.len() as u32).to_le_bytes().to_vec();
    r.extend(body);
    r
}
fn decode_hs(b: &[u8]) -> Option<(Value, usize)> {
    use prost::Message as _;
    if b.len() < 4 {
        return None;
    }
    let n = u32::from_le_bytes([b[0], b[1], b[2], b[3]]) as usize;
    if b.len() < 4 + n {
        return None;
    }
    let h = pb::Handshake::decode(&b[4..4 + n]).ok()?;
    let f = |v: &Vec<pb::handshake::Capability>| {
        Value::Array(v.iter().map(|c| json!([c.id.unwrap_or(0), c.max_streams.unwrap_or(0)])).collect())
    };
    Some((json!([f(&h.accept), f(&h.connect)]), 4 + n))
}

impl Session {
    fn quiesce(&self) {
        self.rt.block_on(Quiesce { armed: false });
    }

    fn new_side(&self, cfg: [u64; 4], acc: &[(u64, u32)], con: &[(u64, u32)], inp: ChanRef, outp: ChanRef) -> Side {
        let accm = cap_map(acc);
        let conm = cap_map(con);
        let _g = self.rt.enter();
        let mk = |m: &BTreeMap<u64, u32>| -> BTreeMap<u64, hook::Queue> {
            m.iter().map(|(c, n)| (*c, hook::Queue::new(&self.ctx, *n))).collect()
        };
        let qs = [mk(&accm), mk(&conm)];
        Side {
            cfg,
            acc: accm,
            con: conm,
            qs,
            rng: [vec![], vec![]],
            run: cell(),
            slots: BTreeMap::new(),
            inp,
            outp,
            out_off: 0,
            nsess: BTreeMap::new(),
            written: BTreeMap::new(),
            tx_state: BTreeMap::new(),
            pend_con: BTreeMap::new(),
            reserved: BTreeMap::new(),
        }
    }

    fn start_mux(&self, s: &Side) -> Result<(), String> {
        let cfg = hook::Config {
            read_frame_size: s.cfg[0],
            read_buffer_size: s.cfg[1],
            read_frame_count: s.cfg[2],
            write_frame_size: s.cfg[3],
        };
        let acc: Vec<(u64, hook::Queue)> = s.qs[0].iter().map(|(c, q)| (*c, q.clone())).collect();
        let con: Vec<(u64, hook::Queue)> = s.qs[1].iter().map(|(c, q)| (*c, q.clone())).collect();
        let mux = hook::Mux::new(cfg, &acc, &con);
        let ver = mux.verify();
        let ep = Endpoint { rx: s.inp.clone(), tx: s.outp.clone() };
        let ctx = self.ctx.clone();
        let run = s.run.clone();
        let _g = self.rt.enter();
        tokio::spawn(async move {
            let r = mux.run(&ctx, ep).await;
            *run.lock().unwrap() = Some(r);
        });
        ver
    }
}

impl C14 {
    fn teardown(&mut self) {
        if let Some(mut s) = self.sess.take() {
            for side in s.sides.iter_mut() {
                side.slots.clear();
            }
            s.clock.advance(time::Duration::hours(4000));
            s.quiesce();
            s.quiesce();
        }
    }

    fn init(&mut self, op: &Value, out: &mut Out) -> Value {
        // end the previous session: cancel its context, let every task finish, then drop the runtime
        self.teardown();
        let rt = tokio::runtime::Builder::new_current_thread().on_thread_park(on_park).build().expect("rt");
        let raw = op["mode"].as_str() == Some("raw");
        let cfg_of = |v: &Value| -> [u64; 4] {
            let a = v.as_array().cloned().unwrap_or_default();
            let g = |i: usize| a.get(i).and_then(|x| x.as_u64()).unwrap_or(0);
            [g(0), g(1), g(2), g(3)]
        };
        // a manual clock and a far deadline: advancing the clock past it is the only way to cancel the context,
        // which is how a session is torn down (the scope tasks of the mux must not be dropped mid-flight)
        let clock = ctx::ManualClock::new();
        let root = ctx::test_root(&clock);
        let child = {
            let _g = rt.enter();
            root.with_timeout(time::Duration::hours(2000))
        };
        let mut sess = Session {
            rt,
            clock,
            ctx: Arc::new(child),
            raw,
            sides: vec![],
            peer: BTreeMap::new(),
            sent: vec![],
            sent_total: 0,
            hs_len: 0,
            op_no: 0,
            last_rec: None,
            cancels: (0, 0),
        };
        let (acc, con, pacc, pcon) = (caps_of(&op["acc"]), caps_of(&op["con"]), caps_of(&op["pacc"]), caps_of(&op["pcon"]));
        let c1: ChanRef = Arc::new(Mutex::new(Chan::default()));
        let c2: ChanRef = Arc::new(Mutex::new(Chan::default()));
        let mut a = sess.new_side(cfg_of(&op["cfg"]), &acc, &con, c1.clone(), c2.clone());
        let mut obs = serde_json::Map::new();
        if raw {
            a.rng = [ranges(&a.acc, &pcon), ranges(&a.con, &pacc)];
            let ver = sess.start_mux(&a);
            obs.insert("verify".into(), json!(ver.is_ok()));
            let hs = encode_hs(&pacc, &pcon);
            sess.hs_len = hs.len();
            chan_push(&c1, &hs);
            sess.sides.push(a);
        } else {
            let mut b = sess.new_side(cfg_of(&op["pcfg"]), &pacc, &pcon, c2.clone(), c1.clone());
            let pa: Vec<(u64, u32)> = b.acc.iter().map(|(c, n)| (*c, *n)).collect();
            let pc: Vec<(u64, u32)> = b.con.iter().map(|(c, n)| (*c, *n)).collect();
            let la: Vec<(u64, u32)> = a.acc.iter().map(|(c, n)| (*c, *n)).collect();
            let lc: Vec<(u64, u32)> = a.con.iter().map(|(c, n)| (*c, *n)).collect();
            a.rng = [ranges(&a.acc, &pc), ranges(&a.con, &pa)];
            b.rng = [ranges(&b.acc, &lc), ranges(&b.con, &la)];
            let va = sess.start_mux(&a);
            let vb = sess.start_mux(&b);
            obs.insert("verify".into(), json!(va.is_ok()));
            obs.insert("verifyB".into(), json!(vb.is_ok()));
            sess.sides.push(a);
            sess.sides.push(b);
        }
        sess.quiesce();
        // the handshake the mux announced
        for (i, s) in sess.sides.iter_mut().enumerate() {
            let log = s.outp.lock().unwrap().log.clone();
            if let Some((hs, n)) = decode_hs(&log) {
                s.out_off = n;
                obs.insert(if i == 0 { "hs".into() } else { "hsB".to_string() }, hs);
            }
        }
        self.sess = Some(sess);
        self.finish_obs(obs, "ok", out)
    }

    /// Collects everything that completed, runs the monitors, and builds the observation.
    fn finish_obs(&mut self, mut obs: serde_json::Map<String, Value>, res: &str, out: &mut Out) -> Value {
        let trace = self.trace.clone();
        let sess = self.sess.as_mut().expect("session");
        let raw = sess.raw;
        let mut fail = |site: &str, what: String| {
            out.oracle_fail(site, &what, json!({"ops": trace}));
        };
        let mut done: Vec<Value> = vec![];
        // scheduling advice for the model: the streams in the order in which the runtime let them through
        // `StreamQueue::push` in this op (connect: order of the OPEN frames; accept: order of the waiting slots)
        let mut adv: Vec<Value> = vec![];
        let nsides = sess.sides.len();
        // pass 1: newly visible output of each mux (also resolves ids reserved for pending connect-opens)
        let mut new_out: Vec<Vec<WFrame>> = vec![];
        for si in 0..nsides {
            let s = &mut sess.sides[si];
            let log = s.outp.lock().unwrap().log.clone();
            let (frames, used) = parse_frames(&log[s.out_off..]);
            s.out_off += used;
            for f in &frames {
                let conn = f.hdr & SK_CONNECT != 0;
                let id = f.hdr & ID_MASK;
                let fk = f.hdr & FK_MASK;
                // sender-side monitor: per key  CLOSE* (OPEN DATA* CLOSE)*, DATA frames non-empty and <= write_frame_size
                let e = s.tx_state.entry((conn, id)).or_insert((0, vec![], 0));
                match fk {
                    FK_OPEN => {
                        if e.0 != 0 {
                            fail("tx_open_while_open", format!("side {si} sent OPEN on ({conn},{id}) while the stream was open"));
                        }
                        *e = (1, vec![], e.2);
                        if conn {
                            // the oldest pending connect-open of the capability this id belongs to gets it
                            if let Some((cap, _, _)) = s.rng[1].iter().find(|(_, b, n)| (id as u32) >= *b && (id as u32) < b + n) {
                                if let Some(q) = s.pend_con.get_mut(cap) {
                                    if let Some(slot) = q.pop_front() {
                                        s.reserved.insert(slot, id);
                                        adv.push(json!([si, 1, id]));
                                    }
                                }
                            } else {
                                fail("tx_id_outside_partition", format!("side {si} sent OPEN on connect id {id} outside every capability range"));
                            }
                        }
                    }
                    FK_DATA => {
                        if e.0 != 1 {
                            fail("tx_data_while_closed", format!("side {si} sent DATA on ({conn},{id}) outside OPEN..CLOSE"));
                        }
                        if f.data.is_empty() || f.data.len() as u64 > s.cfg[3] {
                            fail("tx_frame_size", format!("side {si} sent a DATA frame of {} bytes (write_frame_size {})", f.data.len(), s.cfg[3]));
                        }
                        e.1.extend_from_slice(&f.data);
                    }
                    FK_CLOSE => {
                        if e.0 == 1 {
                            // everything the application wrote in this session has been sent
                            let key = (conn, id, e.2);
                            if let Some((w, _)) = s.written.get(&key) {
                                if let Err(why) = explain(w, &e.1, true) {
                                    fail("tx_session_bytes", format!("side {si} ({conn},{id}) session {}: CLOSE sent after {} payload bytes: {why}", e.2, e.1.len()));
                                }
                            }
                            e.2 += 1;
                        }
                        e.0 = 0;
                    }
                    _ => fail("tx_bad_kind", format!("side {si} sent header {:#06x}", f.hdr)),
                }
                if fk == FK_DATA || fk == FK_OPEN {
                    let e = s.tx_state.get(&(conn, id)).unwrap();
                    let key = (conn, id, e.2);
                    if let Some((w, _)) = s.written.get(&key) {
                        if let Err(why) = explain(w, &e.1, false) {
                            fail("tx_session_bytes", format!("side {si} ({conn},{id}) session {}: the {} payload bytes sent are not a prefix of what was written: {why}", e.2, e.1.len()));
                        }
                    } else if !e.1.is_empty() {
                        fail("tx_session_bytes", format!("side {si} ({conn},{id}) sent data nobody wrote"));
                    }
                }
            }
            new_out.push(frames);
        }
        // pass 1b: after a successful flush everything written on that transient stream is on the wire
        if let Some((si, slot)) = self.flushed.take() {
            let s = &sess.sides[si];
            if let Some(SlotSt::Held(h)) = s.slots.get(&slot) {
                // (with the writer task parked on a transport that takes nothing, flush only means "handed to the writer")
                let parked = s.outp.lock().unwrap().wwaker.is_some();
                if run_class(&s.run) == "up" && !h.write_dropped && !parked {
                    let on_wire = s.tx_state.get(&(h.conn, h.id)).filter(|e| e.2 == h.sess && e.0 == 1).map(|e| e.1.clone()).unwrap_or_default();
                    let empty = (vec![], false);
                    let (w, _) = s.written.get(&(h.conn, h.id, h.sess)).unwrap_or(&empty);
                    if let Err(why) = explain(w, &on_wire, true) {
                        fail("flush_not_on_wire", format!("side {si} slot {slot}: flush returned Ok, {} payload bytes are visible on the transport: {why}", on_wire.len()));
                    }
                }
            }
        }
        // pass 2: completions
        #[allow(clippy::type_complexity)]
        let mut reads: Vec<(usize, u64, bool, u16, usize, Vec<u8>, bool)> = vec![];
        for si in 0..nsides {
            let sent_total = sess.sent_total;
            let s = &mut sess.sides[si];
            let slots: Vec<u64> = s.slots.keys().copied().collect();
            for slot in slots {
                let st = s.slots.get_mut(&slot).unwrap();
                match st {
                    SlotSt::Opening { q, cap, res } => {
                        let got = res.lock().unwrap().take();
                        if let Some(stream) = got {
                            let (q, cap) = (*q, *cap);
                            let (kb, id) = stream.write.kind_and_id().unwrap_or((0xFFFF, 0xFFFF));
                            let conn = kb == SK_CONNECT;
                            if (kb != 0 && kb != SK_CONNECT) || conn != (q == 1) {
                                fail("open_kind", format!("side {si} slot {slot}: queue {q} returned a stream of kind {kb:#x}"));
                            }
                            // capability partition (the harness's own computation from min(local, peer))
                            match s.rng[q].iter().find(|(c, _, _)| *c == cap) {
                                Some((_, b, n)) if (id as u32) >= *b && (id as u32) < b + n => {}
                                r => fail("id_outside_capability", format!("side {si} slot {slot}: capability {cap} got stream id {id}, expected range {r:?}")),
                            }
                            if conn {
                                if let Some(r) = s.reserved.remove(&slot) {
                                    if r != id {
                                        fail("open_fifo", format!("side {si} slot {slot}: OPEN seen on id {r}, stream has id {id}"));
                                    }
                                }
                            }
                            let n = s.nsess.entry((conn, id)).or_insert(0);
                            let sess_no = *n;
                            *n += 1;
                            if raw {
                                // three-way OPEN: no transient stream before the peer's OPEN of this session
                                let opened = sess.peer.get(&(conn, id)).map(|pk| pk.sessions.len()).unwrap_or(0);
                                let wf = sess.peer.get(&(conn, id)).map(|pk| pk.wf).unwrap_or(true);
                                if wf && opened <= sess_no {
                                    fail("stream_before_peer_open", format!("side {si} slot {slot}: transient stream {} on ({conn},{id}) handed out, the peer has sent {opened} OPEN frames on it", sess_no + 1));
                                }
                            }
                            s.written.insert((conn, id, sess_no), (vec![], false));
                            *st = SlotSt::Held(Held {
                                conn,
                                id,
                                cap,
                                read: Some(stream.read),
                                write: Some(stream.write),
                                reading: None,
                                read_dropped: false,
                                write_dropped: false,
                                sess: sess_no,
                                got: vec![],
                                nread: 0,
                                reads_issued: 0,
                                handover_off: sent_total,
                            });
                            done.push(json!([si, slot, "open", conn as u8, id]));
                            if !conn {
                                adv.push(json!([si, 0, id]));
                            }
                        }
                    }
                    SlotSt::Held(h) => {
                        let fin = match &h.reading {
                            Some((_, c)) => c.lock().unwrap().take(),
                            None => None,
                        };
                        if let Some((rh, r)) = fin {
                            let n = h.reading.take().unwrap().0;
                            h.read = Some(rh);
                            match r {
                                Ok(b) => {
                                    let eos = b.len() < n;
                                    done.push(json!([si, slot, "read", hex(&b), eos as u8]));
                                    self_check_read(si, slot, h, &b, eos, raw, sess_peer(&sess.peer, h), &mut fail);
                                    h.nread += b.len();
                                    h.got.extend_from_slice(&b);
                                    reads.push((si, slot, h.conn, h.id, h.sess, h.got.clone(), eos));
                                }
                                Err(e) => done.push(json!([si, slot, "readerr", e])),
                            }
                        }
                    }
                }
            }
        }
        // pass 2b: what a transient stream returned against what its counterpart sent in the same session
        for (si, slot, conn, id, sn, got, eos) in &reads {
            let (si, slot, conn, id, sn, eos) = (*si, *slot, *conn, *id, *sn, *eos);
            let up = run_class(&sess.sides[si].run) == "up";
            if raw {
                let closed = sess.peer.get(&(conn, id)).and_then(|pk| pk.sessions.get(sn)).map(|x| x.1).unwrap_or(false);
                let wf = sess.peer.get(&(conn, id)).map(|pk| pk.wf).unwrap_or(true);
                if eos && up && wf && !closed {
                    fail("eos_without_close", format!("side {si} slot {slot} ({conn},{id}) session {sn}: end of stream, but the peer sent no CLOSE on this stream"));
                }
            } else {
                let other = 1 - si;
                // (the counterpart's transient stream of this session may not have been handed over yet: nothing written)
                let empty = (vec![], false);
                let (w, wclosed) = sess.sides[other].written.get(&(!conn, id, sn)).unwrap_or(&empty);
                let both_up = up && run_class(&sess.sides[other].run) == "up";
                if eos && both_up && !*wclosed {
                    fail("eos_without_close", format!("side {si} slot {slot} ({conn},{id}) session {sn}: end of stream while the counterpart's write half is still open"));
                } else if eos && both_up {
                    // end of stream: everything the counterpart's write_all calls accepted has arrived, in order
                    if let Err(why) = explain(w, got, true) {
                        fail("eos_before_all_data", format!("side {si} slot {slot} ({conn},{id}) session {sn}: end of stream after {} bytes: {why}", got.len()));
                    }
                } else if let Err(why) = explain(w, got, false) {
                    fail("read_bytes_mismatch", format!("side {si} slot {slot} ({conn},{id}) session {sn}: the {} bytes read so far are not what the counterpart wrote: {why}", got.len()));
                }
            }
        }
        // pass 3: concurrently held transient streams per capability <= min(local, peer)
        let mut held_counts = vec![];
        for si in 0..nsides {
            let s = &sess.sides[si];
            let mut per: BTreeMap<(usize, u64), u32> = BTreeMap::new();
            let mut total = 0u64;
            for v in s.slots.values() {
                if let SlotSt::Held(h) = v {
                    if !(h.read_dropped && h.write_dropped) {
                        *per.entry((h.conn as usize, h.cap)).or_insert(0) += 1;
                        total += 1;
                    }
                }
            }
            for ((q, cap), n) in per {
                let lim = s.rng[q].iter().find(|(c, _, _)| *c == cap).map(|x| x.2).unwrap_or(0);
                if n > lim {
                    fail("too_many_open_streams", format!("side {si} queue {q} capability {cap}: {n} transient streams held, min(local, peer) = {lim}"));
                }
            }
            held_counts.push(total);
        }
        // pass 4 (raw mode): data pulled from the transport for streams the application holds and has not read
        if raw {
            let s = &sess.sides[0];
            let pulled = s.inp.lock().unwrap().total_read.saturating_sub(sess.hs_len);
            let mut unread_bytes: u64 = 0;
            let mut unread_frames: u64 = 0;
            for v in s.slots.values() {
                if let SlotSt::Held(h) = v {
                    if h.read_dropped {
                        continue;
                    }
                    let mut got: usize = 0;
                    let mut pieces: u64 = 0;
                    for f in sess.sent.iter().filter(|f| f.known && f.conn == h.conn && f.id == h.id && f.start >= h.handover_off) {
                        if f.is_data {
                            if pulled > f.pstart {
                                let n = std::cmp::min(pulled, f.end) - f.pstart;
                                got += n;
                                pieces += (n as u64).div_ceil(std::cmp::max(s.cfg[0], 1));
                            }
                        } else if pulled > f.end {
                            // a control frame after which more has been pulled has been queued: it holds a count permit
                            pieces += 1;
                        }
                    }
                    // bytes read by the application in this hold come first out of `got` (an under-approximation
                    // of what is still buffered if earlier frames were sent before hand-over)
                    let inflight = h.reading.as_ref().map(|r| r.0).unwrap_or(0);
                    unread_bytes += got.saturating_sub(h.nread + inflight) as u64;
                    if h.reads_issued == 0 {
                        unread_frames += pieces;
                    }
                }
            }
            if unread_bytes > s.cfg[1] {
                fail("read_buffer_exceeded", format!("{unread_bytes} unread payload bytes pulled from the transport, read_buffer_size = {}", s.cfg[1]));
            }
            if unread_frames > s.cfg[2] {
                fail("read_frame_count_exceeded", format!("{unread_frames} unread frames pulled from the transport, read_frame_count = {}", s.cfg[2]));
            }
            obs.insert("pulled".into(), json!(pulled));
        }
        done.sort_by(|a, b| (a[0].as_u64(), a[1].as_u64()).cmp(&(b[0].as_u64(), b[1].as_u64())));
        for (si, frames) in new_out.iter().enumerate() {
            let mut v: Vec<(u64, u64, usize, Value)> = frames
                .iter()
                .enumerate()
                .map(|(i, f)| {
                    let conn = (f.hdr & SK_CONNECT != 0) as u64;
                    let id = (f.hdr & ID_MASK) as u64;
                    (conn, id, i, json!([conn, id, fk_code(f.hdr), hex(&f.data)]))
                })
                .collect();
            v.sort_by_key(|x| (x.0, x.1, x.2));
            obs.insert(if si == 0 { "out".into() } else { "outB".to_string() }, Value::Array(v.into_iter().map(|x| x.3).collect()));
        }
        obs.insert("run".into(), json!(run_class(&sess.sides[0].run)));
        if nsides > 1 {
            obs.insert("runB".into(), json!(run_class(&sess.sides[1].run)));
        }
        obs.insert("held".into(), json!(held_counts));
        obs.insert("done".into(), Value::Array(done));
        obs.insert("_adv".into(), Value::Array(adv));
        obs.insert("res".into(), json!(res));
        // outcome class of the op (generator statistics; also compared)
        let ndone = obs["done"].as_array().map(|a| a.len()).unwrap_or(0);
        let nout = obs["out"].as_array().map(|a| a.len()).unwrap_or(0) + obs.get("outB").and_then(|a| a.as_array()).map(|a| a.len()).unwrap_or(0);
        let cls = format!(
            "{}/{}/{}{}",
            res,
            obs["run"].as_str().unwrap_or(""),
            if ndone > 0 { "done" } else { "-" },
            if nout > 0 { "+out" } else { "" }
        );
        obs.insert("class".into(), json!(cls));
        Value::Object(obs)
    }
}

fn sess_peer<'a>(peer: &'a BTreeMap<(bool, u16), PeerKey>, h: &Held) -> Option<&'a PeerKey> {
    peer.get(&(h.conn, h.id))
}

/// Reader-side monitor in raw mode: the bytes a transient stream returns are the payload the peer addressed to
/// its (kind, id) in the matching session, in order; end-of-stream only after the peer's CLOSE.
#[allow(clippy::too_many_arguments)]
fn self_check_read(si: usize, slot: u64, h: &Held, b: &[u8], eos: bool, raw: bool, pk: Option<&PeerKey>, fail: &mut impl FnMut(&str, String)) {
    if !raw {
        return;
    }
    let Some(pk) = pk else {
        if !b.is_empty() {
            fail("read_bytes_nobody_sent", format!("side {si} slot {slot}: read {} bytes, the peer never addressed ({},{})", b.len(), h.conn, h.id));
        }
        return;
    };
    if !pk.wf {
        return;
    }
    match pk.sessions.get(h.sess) {
        Some((data, closed)) => {
            if data.len() < h.nread + b.len() || data[h.nread..h.nread + b.len()] != *b {
                fail("read_bytes_mismatch", format!("side {si} slot {slot} ({},{}) session {}: bytes read at offset {} differ from the payload the peer sent", h.conn, h.id, h.sess, h.nread));
            }
            if eos && *closed && h.nread + b.len() != data.len() {
                fail("eos_before_all_data", format!("side {si} slot {slot}: end of stream after {} of {} bytes", h.nread + b.len(), data.len()));
            }
            let _ = closed;
        }
        None => {
            if !b.is_empty() {
                fail("read_bytes_nobody_sent", format!("side {si} slot {slot}: session {} has data but the peer opened only {} sessions", h.sess, pk.sessions.len()));
            }
        }
    }
}

// ------------------------------------------------------------------------------------------------
// operations
impl C14 {
    fn side_of(op: &Value) -> usize {
        op["side"].as_u64().unwrap_or(0) as usize
    }

    fn exec_inner(&mut self, op: &Value, out: &mut Out) -> Value {
        let kind = op["op"].as_str().unwrap_or("");
        if kind == "init" {
            self.trace.clear();
            self.trace.push(op.clone());
            return self.init(op, out);
        }
        self.trace.push(op.clone());
        if self.sess.is_none() {
            return json!({"res": "nosession"});
        }
        let obs = serde_json::Map::new();
        let res: String = {
            let sess = self.sess.as_mut().unwrap();
            sess.op_no += 1;
            let si = Self::side_of(op);
            if si >= sess.sides.len() {
                "noside".into()
            } else {
                match kind {
                    "wire" => sess.op_wire(op),
                    "eof" => {
                        if sess.raw {
                            chan_eof(&sess.sides[0].inp);
                            "ok".into()
                        } else {
                            "noraw".into()
                        }
                    }
                    "open" => sess.op_open(si, op),
                    "read" => sess.op_read(si, op),
                    "write" => sess.op_write(si, op, false),
                    "flush" => sess.op_flush(si, op, false),
                    // write_all / flush under a context of its own, which the harness cancels if the call is still
                    // suspended when nothing can move any more
                    "cwrite" => sess.op_write(si, op, true),
                    "cflush" => sess.op_flush(si, op, true),
                    // raw: the peer is going to take `n` more bytes from the transport (null: no limit)
                    "win" => {
                        if sess.raw {
                            let c = &sess.sides[0].outp;
                            {
                                let mut g = c.lock().unwrap();
                                g.limit = op["n"].as_u64().map(|n| g.wtotal + n as usize);
                            }
                            chan_wake_writer(c);
                            "ok".into()
                        } else {
                            "noraw".into()
                        }
                    }
                    // pair: the pipe from this side to the other holds at most `n` unread bytes (null: unbounded)
                    "cap" => {
                        if sess.raw {
                            "nopair".into()
                        } else {
                            let c = &sess.sides[si].outp;
                            c.lock().unwrap().cap = op["n"].as_u64().map(|n| n as usize);
                            chan_wake_writer(c);
                            "ok".into()
                        }
                    }
                    "drop" => sess.op_drop(si, op),
                    "quiet" => "ok".into(),
                    _ => "badop".into(),
                }
            }
        };
        self.sess.as_ref().unwrap().quiesce();
        // results of write / flush tasks
        let res = {
            let sess = self.sess.as_mut().unwrap();
            sess.collect_write(Self::side_of(op), op, res)
        };
        if kind == "cwrite" || kind == "cflush" {
            out.count(&format!("{kind}={res}"));
            let c = self.sess.as_ref().unwrap().cancels;
            for _ in 0..c.0 {
                out.count("cancel_at_reservation(writer parked on the transport)");
            }
            for _ in 0..c.1 {
                out.count("cancel_elsewhere");
            }
            self.sess.as_mut().unwrap().cancels = (0, 0);
        }
        self.flushed = if (kind == "flush" || kind == "cflush") && res == "ok" { Some((Self::side_of(op), op["slot"].as_u64().unwrap_or(0))) } else { None };
        self.finish_obs(obs, &res, out)
    }
}

type WriteCell = Cell<(hook::WriteHalf, Result<(), String>)>;
thread_local! {
    static WRITE_CELL: std::cell::RefCell<Option<WriteCell>> = const { std::cell::RefCell::new(None) };
}

impl Session {
    fn op_wire(&mut self, op: &Value) -> String {
        if !self.raw {
            return "noraw".into();
        }
        let frames = op["frames"].as_array().cloned().unwrap_or_default();
        let mut bytes = vec![];
        for f in &frames {
            // [hdr, n, seed]  or  ["s", slot, fk, n, seed] (addressed to the stream the slot holds / has reserved)
            let (hdr, n, seed) = if f[0].as_str() == Some("s") {
                let slot = f[1].as_u64().unwrap_or(0);
                let fk = match f[2].as_u64().unwrap_or(0) {
                    0 => FK_OPEN,
                    1 => FK_DATA,
                    2 => FK_CLOSE,
                    _ => FK_MASK,
                };
                let s = &self.sides[0];
                let key = match s.slots.get(&slot) {
                    Some(SlotSt::Held(h)) => Some((h.conn, h.id)),
                    Some(SlotSt::Opening { q: 1, .. }) => s.reserved.get(&slot).map(|id| (true, *id)),
                    _ => None,
                };
                match key {
                    // frames travel with the *sender's* stream kind: the peer's end of our connect stream is an accept stream
                    Some((conn, id)) => (fk | if conn { 0 } else { SK_CONNECT } | id, f[3].as_u64().unwrap_or(0) as usize, f[4].as_u64().unwrap_or(0)),
                    None => continue,
                }
            } else {
                (f[0].as_u64().unwrap_or(0) as u16, f[1].as_u64().unwrap_or(0) as usize, f[2].as_u64().unwrap_or(0))
            };
            let start = self.sent_total + bytes.len();
            bytes.extend_from_slice(&hdr.to_le_bytes());
            let is_data = hdr & FK_MASK == FK_DATA;
            let data = if is_data { payload(n, seed) } else { vec![] };
            if is_data {
                bytes.extend_from_slice(&(data.len() as u16).to_le_bytes());
            }
            let pstart = self.sent_total + bytes.len();
            bytes.extend_from_slice(&data);
            let end = self.sent_total + bytes.len();
            // local key: a frame whose sender kind is ACCEPT goes to our connect streams
            let conn = hdr & SK_CONNECT == 0;
            let id = hdr & ID_MASK;
            let s = &self.sides[0];
            let q = if conn { 1 } else { 0 };
            let known = s.rng[q].iter().map(|x| x.2).sum::<u32>() > id as u32 && hdr & FK_MASK != FK_MASK;
            self.sent.push(SentFrame { conn, id, is_data, start, pstart, end, known });
            if known {
                let pk = self.peer.entry((conn, id)).or_insert(PeerKey { sessions: vec![], open: false, wf: true });
                match hdr & FK_MASK {
                    FK_OPEN => {
                        if pk.open {
                            pk.wf = false;
                        }
                        pk.open = true;
                        pk.sessions.push((vec![], false));
                    }
                    FK_DATA => {
                        if !pk.open {
                            if !data.is_empty() {
                                pk.wf = false;
                            }
                        } else if let Some(l) = pk.sessions.last_mut() {
                            l.0.extend_from_slice(&data);
                        }
                    }
                    _ => {
                        if pk.open {
                            if let Some(l) = pk.sessions.last_mut() {
                                l.1 = true;
                            }
                        }
                        pk.open = false;
                    }
                }
            }
        }
        self.sent_total += bytes.len();
        chan_push(&self.sides[0].inp, &bytes);
        "ok".into()
    }

    fn op_open(&mut self, si: usize, op: &Value) -> String {
        let slot = op["slot"].as_u64().unwrap_or(0);
        let q = op["q"].as_u64().unwrap_or(0) as usize & 1;
        let cap = op["cap"].as_u64().unwrap_or(0);
        let s = &mut self.sides[si];
        if s.slots.contains_key(&slot) {
            return "busy".into();
        }
        let Some(queue) = s.qs[q].get(&cap).cloned() else {
            return "nocap".into();
        };
        let res: Cell<hook::Stream> = cell();
        let r2 = res.clone();
        let ctx = self.ctx.clone();
        let _g = self.rt.enter();
        tokio::spawn(async move {
            if let Ok(st) = queue.open(&ctx).await {
                *r2.lock().unwrap() = Some(st);
            }
        });
        if q == 1 {
            s.pend_con.entry(cap).or_default().push_back(slot);
        }
        s.slots.insert(slot, SlotSt::Opening { q, cap, res });
        "ok".into()
    }

    fn op_read(&mut self, si: usize, op: &Value) -> String {
        let slot = op["slot"].as_u64().unwrap_or(0);
        let n = op["n"].as_u64().unwrap_or(0) as usize;
        let s = &mut self.sides[si];
        let Some(SlotSt::Held(h)) = s.slots.get_mut(&slot) else {
            return "noslot".into();
        };
        if h.reading.is_some() {
            return "busy".into();
        }
        let Some(mut rh) = h.read.take() else {
            return "nohalf".into();
        };
        let c: Cell<(hook::ReadHalf, Result<Vec<u8>, String>)> = cell();
        let c2 = c.clone();
        let ctx = self.ctx.clone();
        let _g = self.rt.enter();
        tokio::spawn(async move {
            let r = rh.read_exact(&ctx, n).await.map_err(|e| format!("{e:#}"));
            *c2.lock().unwrap() = Some((rh, r));
        });
        h.reading = Some((n, c));
        h.reads_issued += 1;
        "ok".into()
    }

    fn op_write(&mut self, si: usize, op: &Value, cancellable: bool) -> String {
        let slot = op["slot"].as_u64().unwrap_or(0);
        let n = op["n"].as_u64().unwrap_or(0) as usize;
        let seed = op["seed"].as_u64().unwrap_or(0);
        let s = &mut self.sides[si];
        let Some(SlotSt::Held(h)) = s.slots.get_mut(&slot) else {
            return "noslot".into();
        };
        let Some(mut wh) = h.write.take() else {
            return "nohalf".into();
        };
        let data = payload(n, seed);
        let key = (h.conn, h.id, h.sess);
        if let Some(w) = s.written.get_mut(&key) {
            w.0.push(WRec { data: data.clone(), res: WR::Pending });
            self.last_rec = Some((si, key));
        }
        let c: WriteCell = cell();
        let c2 = c.clone();
        let ctx = self.ctx.clone();
        let _g = self.rt.enter();
        tokio::spawn(async move {
            // the context of this one call: cancelled by advancing the manual clock past its deadline
            let child;
            let ctx: &ctx::Ctx = if cancellable {
                child = ctx.with_timeout(time::Duration::seconds(1));
                &child
            } else {
                &ctx
            };
            let r = wh.write_all(ctx, &data).await.map_err(|e| format!("{e:#}"));
            *c2.lock().unwrap() = Some((wh, r));
        });
        WRITE_CELL.with(|w| *w.borrow_mut() = Some(c));
        if cancellable { "cw".into() } else { "w".into() }
    }

    fn op_flush(&mut self, si: usize, op: &Value, cancellable: bool) -> String {
        let slot = op["slot"].as_u64().unwrap_or(0);
        let s = &mut self.sides[si];
        let Some(SlotSt::Held(h)) = s.slots.get_mut(&slot) else {
            return "noslot".into();
        };
        let Some(mut wh) = h.write.take() else {
            return "nohalf".into();
        };
        let c: WriteCell = cell();
        let c2 = c.clone();
        let ctx = self.ctx.clone();
        let _g = self.rt.enter();
        tokio::spawn(async move {
            let child;
            let ctx: &ctx::Ctx = if cancellable {
                child = ctx.with_timeout(time::Duration::seconds(1));
                &child
            } else {
                &ctx
            };
            let r = wh.flush(ctx).await.map_err(|e| format!("{e:#}"));
            *c2.lock().unwrap() = Some((wh, r));
        });
        WRITE_CELL.with(|w| *w.borrow_mut() = Some(c));
        if cancellable { "cw".into() } else { "w".into() }
    }

    /// After quiescence: take the write half back and report the result of write_all / flush. A cancellable call that
    /// is still suspended now is blocked for good (nothing can move any more): its context is cancelled.
    fn collect_write(&mut self, si: usize, op: &Value, res: String) -> String {
        if res != "w" && res != "cw" {
            return res;
        }
        let slot = op["slot"].as_u64().unwrap_or(0);
        let c = WRITE_CELL.with(|w| w.borrow_mut().take());
        let Some(c) = c else { return "lost".into() };
        let mut got = c.lock().unwrap().take();
        let mut canceled = false;
        if got.is_none() && res == "cw" {
            let parked = self.sides[si].outp.lock().unwrap().wwaker.is_some();
            self.clock.advance(time::Duration::seconds(2));
            self.quiesce();
            got = c.lock().unwrap().take();
            canceled = true;
            if parked {
                self.cancels.0 += 1;
            } else {
                self.cancels.1 += 1;
            }
        }
        let (r, wr) = match got {
            Some((wh, r)) => {
                if let Some(SlotSt::Held(h)) = self.sides[si].slots.get_mut(&slot) {
                    h.write = Some(wh);
                }
                if r.is_ok() {
                    ("ok", WR::Ok)
                } else if canceled {
                    ("canceled", WR::Canceled)
                } else {
                    ("err", WR::Err)
                }
            }
            // still blocked at quiescence
            None => ("pend", WR::Pending),
        };
        if let Some((si2, key)) = self.last_rec.take() {
            if let Some(rec) = self.sides[si2].written.get_mut(&key).and_then(|w| w.0.last_mut()) {
                rec.res = wr;
            }
        }
        r.into()
    }

    fn op_drop(&mut self, si: usize, op: &Value) -> String {
        let slot = op["slot"].as_u64().unwrap_or(0);
        let half = op["half"].as_str().unwrap_or("rw").to_string();
        let s = &mut self.sides[si];
        let Some(SlotSt::Held(h)) = s.slots.get_mut(&slot) else {
            return "noslot".into();
        };
        if half.contains('r') && h.reading.is_some() {
            return "busy".into();
        }
        let _g = self.rt.enter();
        if half.contains('r') {
            h.read = None;
            h.read_dropped = true;
        }
        if half.contains('w') {
            h.write = None;
            if !h.write_dropped {
                if let Some(w) = s.written.get_mut(&(h.conn, h.id, h.sess)) {
                    w.1 = true;
                }
            }
            h.write_dropped = true;
        }
        "ok".into()
    }
}

impl Prop for C14 {
    fn gen(&mut self, opts: &Opts) -> Vec<Value> {
        gen_all(opts)
    }

    fn exec(&mut self, op: &Value, out: &mut Out) -> Value {
        let kind = op["op"].as_str().unwrap_or("").to_string();
        out.count(&format!("op={kind}"));
        // `out` is only touched by the monitors; a panic anywhere inside the real code is an observation
        let me: *mut C14 = self;
        let outp: *mut Out = out;
        let r = catch(|| unsafe { (*me).exec_inner(op, &mut *outp) });
        match r {
            Ok(v) => {
                if let Some(r) = v["run"].as_str() {
                    out.count(&format!("run={r}"));
                }
                v
            }
            Err(site) => {
                out.oracle_fail(&site, "panic inside the multiplexer or its harness", json!({"ops": self.trace}));
                std::mem::forget(self.sess.take());
                json!({"panic": site})
            }
        }
    }
}

fn main() {
    let mut p = C14 { sess: None, trace: vec![], flushed: None };
    vharness::main_for(&mut p);
    p.teardown();
}

// ------------------------------------------------------------------------------------------------
// generator
struct G<'a> {
    rng: &'a mut StdRng,
    ops: Vec<Value>,
    /// next slot number per side
    next_slot: [u64; 2],
    /// slots created so far per side: (slot, queue 0/1, cap)
    slots: [Vec<(u64, usize, u64)>; 2],
    /// slots whose open the generator has also answered on the other end (probably established)
    likely: [Vec<(u64, usize, u64)>; 2],
    seq: u64,
}

fn caps_json(c: &[(u64, u32)]) -> Value {
    Value::Array(c.iter().map(|(a, b)| json!([a, b])).collect())
}

impl<'a> G<'a> {
    fn new(rng: &'a mut StdRng) -> Self {
        G { rng, ops: vec![], next_slot: [1, 1], slots: [vec![], vec![]], likely: [vec![], vec![]], seq: 0 }
    }
    fn reset(&mut self) {
        self.next_slot = [1, 1];
        self.slots = [vec![], vec![]];
        self.likely = [vec![], vec![]];
    }
    /// the slots to choose from: mostly the established ones, sometimes any
    fn have(&mut self, side: usize) -> Vec<(u64, usize, u64)> {
        if !self.likely[side].is_empty() && self.r(0, 99) < 85 {
            self.likely[side].clone()
        } else {
            self.slots[side].clone()
        }
    }
    fn mark(&mut self, side: usize, slot: u64) {
        if let Some(e) = self.slots[side].iter().find(|e| e.0 == slot).copied() {
            self.likely[side].push(e);
        }
    }
    fn r(&mut self, lo: u64, hi: u64) -> u64 {
        self.rng.gen_range(lo..=hi)
    }
    fn pick<T: Copy>(&mut self, v: &[T]) -> T {
        v[self.rng.gen_range(0..v.len())]
    }
    fn seed(&mut self, side: usize, slot: u64) -> u64 {
        self.seq += 1;
        (side as u64 * 101 + slot * 37 + self.seq * 13) % 251
    }
    fn cfg(&mut self) -> [u64; 4] {
        let rfs = self.pick(&[1u64, 2, 3, 4, 5, 7, 8, 16, 100]);
        let rbs = match self.r(0, 9) {
            0 => rfs,
            1 => rfs.saturating_sub(1).max(1),
            2..=5 => rfs * self.r(1, 6) + self.r(0, 3),
            _ => self.r(8, 200),
        };
        let rfc = self.pick(&[1u64, 1, 2, 3, 4, 6, 10]);
        let wfs = self.pick(&[1u64, 2, 3, 5, 8, 13, 64]);
        [rfs, rbs, rfc, wfs]
    }
    fn caps(&mut self, universe: &[u64]) -> Vec<(u64, u32)> {
        let mut v = vec![];
        for c in universe {
            if self.r(0, 9) < 8 {
                v.push((*c, self.pick(&[0u32, 1, 1, 2, 2, 3, 4])));
            }
        }
        // BTreeMap input order does not matter: shuffle
        if v.len() > 1 && self.r(0, 1) == 0 {
            v.reverse();
        }
        v
    }
    fn init_raw(&mut self, cfg: [u64; 4], acc: &[(u64, u32)], con: &[(u64, u32)], pacc: &[(u64, u32)], pcon: &[(u64, u32)]) {
        self.reset();
        self.ops.push(json!({"op":"init","reset":true,"mode":"raw","cfg":cfg,"acc":caps_json(acc),"con":caps_json(con),"pacc":caps_json(pacc),"pcon":caps_json(pcon)}));
    }
    fn open(&mut self, side: usize, q: usize, cap: u64) -> u64 {
        let slot = self.next_slot[side];
        self.next_slot[side] += 1;
        self.slots[side].push((slot, q, cap));
        self.ops.push(json!({"op":"open","side":side,"q":q,"cap":cap,"slot":slot}));
        slot
    }
    fn wire(&mut self, frames: Vec<Value>) {
        self.ops.push(json!({"op":"wire","frames":frames}));
    }
    fn read(&mut self, side: usize, slot: u64, n: u64) {
        self.ops.push(json!({"op":"read","side":side,"slot":slot,"n":n}));
    }
    fn write(&mut self, side: usize, slot: u64, n: u64) {
        let seed = self.seed(side, slot);
        self.ops.push(json!({"op":"write","side":side,"slot":slot,"n":n,"seed":seed}));
    }
    fn flush(&mut self, side: usize, slot: u64) {
        self.ops.push(json!({"op":"flush","side":side,"slot":slot}));
    }
    /// write_all under a context of its own (cancelled by the harness if the call blocks for good)
    fn cwrite(&mut self, side: usize, slot: u64, n: u64) {
        let seed = self.seed(side, slot);
        self.ops.push(json!({"op":"cwrite","side":side,"slot":slot,"n":n,"seed":seed}));
    }
    fn cflush(&mut self, side: usize, slot: u64) {
        self.ops.push(json!({"op":"cflush","side":side,"slot":slot}));
    }
    /// raw: the peer takes `n` more bytes (None: without limit)
    fn win(&mut self, n: Option<u64>) {
        self.ops.push(json!({"op":"win","n":n}));
    }
    /// pair: bound on the unread bytes in the pipe from `side` to the other side
    fn cap(&mut self, side: usize, n: Option<u64>) {
        self.ops.push(json!({"op":"cap","side":side,"n":n}));
    }
    fn drop(&mut self, side: usize, slot: u64, half: &str) {
        self.ops.push(json!({"op":"drop","side":side,"slot":slot,"half":half}));
    }
    fn quiet(&mut self) {
        self.ops.push(json!({"op":"quiet"}));
    }
    /// frame addressed to the stream a slot holds: fk 0 OPEN, 1 DATA, 2 CLOSE
    fn sf(&mut self, slot: u64, fk: u64, n: u64) -> Value {
        let seed = self.seed(0, slot);
        json!(["s", slot, fk, n, seed])
    }
    /// raw frame from the peer; `conn_local`: addressed to one of our CONNECT streams
    fn rf(&mut self, fk: u16, conn_local: bool, id: u16, n: u64) -> Value {
        let hdr = fk | if conn_local { 0 } else { SK_CONNECT } | id;
        let seed = self.seed(0, id as u64 + 50);
        json!([hdr, n, seed])
    }

    /// the peer's initial CLOSE on every agreed stream (what a real peer mux sends first)
    fn peer_initial_closes(&mut self, rng: &[Vec<(u64, u32, u32)>; 2]) {
        let mut fs = vec![];
        for q in 0..2 {
            let total: u32 = rng[q].iter().map(|x| x.2).sum();
            for id in 0..total {
                fs.push(self.rf(FK_CLOSE, q == 1, id as u16, 0));
            }
        }
        if !fs.is_empty() {
            self.wire(fs);
        }
    }

    // -------------------------------------------------------------------------------------------
    /// cooperative-ish random session against the raw peer
    fn raw_random(&mut self, len: usize, adversarial: bool) {
        let cfg = self.cfg();
        let uni = [0u64, 1, 5];
        let (acc, con, pacc, pcon) = (self.caps(&uni), self.caps(&uni), self.caps(&[0, 1, 5, 9]), self.caps(&[0, 1, 5, 9]));
        self.init_raw(cfg, &acc, &con, &pacc, &pcon);
        let rg = [ranges(&cap_map(&acc), &pcon), ranges(&cap_map(&con), &pacc)];
        let nacc: u32 = rg[0].iter().map(|x| x.2).sum();
        if self.r(0, 9) < 7 {
            self.peer_initial_closes(&rg);
        }
        let acc_caps: Vec<u64> = cap_map(&acc).keys().copied().collect();
        let con_caps: Vec<u64> = cap_map(&con).keys().copied().collect();
        for _ in 0..len {
            let have: Vec<(u64, usize, u64)> = self.have(0);
            let choice = self.r(0, 99);
            match choice {
                0..=7 if !con_caps.is_empty() => {
                    let c = self.pick(&con_caps);
                    let slot = self.open(0, 1, c);
                    // usually the peer answers
                    if self.r(0, 9) < 7 {
                        let f = self.sf(slot, 0, 0);
                        self.wire(vec![f]);
                        if rg[1].iter().any(|x| x.0 == c && x.2 > 0) {
                            self.mark(0, slot);
                        }
                    }
                }
                8..=15 if nacc > 0 => {
                    // the peer opens an accept stream, usually the application accepts
                    let id = self.r(0, nacc as u64 - 1) as u16;
                    let f = self.rf(FK_OPEN, false, id, 0);
                    self.wire(vec![f]);
                    if self.r(0, 9) < 8 {
                        if let Some((c, _, _)) = rg[0].iter().find(|(_, b, n)| (id as u32) >= *b && (id as u32) < b + n) {
                            let slot = self.open(0, 0, *c);
                            self.mark(0, slot);
                        }
                    }
                }
                16..=19 if !acc_caps.is_empty() => {
                    let c = self.pick(&acc_caps);
                    self.open(0, 0, c);
                }
                20..=44 if !have.is_empty() => {
                    // data from the peer, to one or several streams
                    let k = self.r(1, 3);
                    let mut fs = vec![];
                    for _ in 0..k {
                        let (slot, _, _) = self.pick(&have);
                        let n = self.pick(&[0u64, 1, 2, 3, 5, 8, 13, 21, 40]);
                        fs.push(self.sf(slot, 1, n));
                    }
                    self.wire(fs);
                }
                45..=64 if !have.is_empty() => {
                    let (slot, _, _) = self.pick(&have);
                    let n = self.pick(&[0u64, 1, 2, 3, 4, 7, 10, 16, 30]);
                    self.read(0, slot, n);
                }
                65..=76 if !have.is_empty() => {
                    let (slot, _, _) = self.pick(&have);
                    let n = self.pick(&[0u64, 1, 2, 3, 5, 9, 17, 33]);
                    self.write(0, slot, n);
                    if self.r(0, 2) > 0 {
                        self.flush(0, slot);
                    }
                }
                77..=82 if !have.is_empty() => {
                    let (slot, _, _) = self.pick(&have);
                    let f = self.sf(slot, 2, 0);
                    self.wire(vec![f]);
                }
                83..=90 if !have.is_empty() => {
                    let (slot, _, _) = self.pick(&have);
                    let h = self.pick(&["r", "w", "rw", "rw"]);
                    self.drop(0, slot, h);
                }
                91..=94 if adversarial => {
                    // frames nobody asked for: DATA / OPEN / CLOSE on arbitrary agreed ids
                    let conn_local = self.r(0, 1) == 0;
                    let total: u32 = rg[conn_local as usize].iter().map(|x| x.2).sum();
                    if total > 0 {
                        let id = self.r(0, total as u64 - 1) as u16;
                        let fk = self.pick(&[FK_OPEN, FK_DATA, FK_CLOSE]);
                        let n = self.r(0, 9);
                        let f = self.rf(fk, conn_local, id, n);
                        self.wire(vec![f]);
                    }
                }
                _ => self.quiet(),
            }
        }
        // drain: read whatever is left on the established slots (and on a few others)
        let have: Vec<(u64, usize, u64)> = self.slots[0].clone();
        for (slot, _, _) in have {
            let est = self.likely[0].iter().any(|e| e.0 == slot);
            if self.r(0, 2) == 0 && (est || self.r(0, 4) == 0) {
                self.read(0, slot, 64);
            }
        }
        self.quiet();
    }

    /// never-reading application, sender that ignores flow control
    fn raw_flood(&mut self) {
        let rfs = self.pick(&[1u64, 2, 4, 8, 16]);
        let rbs = rfs * self.r(1, 5) + self.r(0, 2);
        let rfc = self.r(1, 6);
        let cfg = [rfs, rbs, rfc, 8];
        let na = self.r(1, 3) as u32;
        self.init_raw(cfg, &[(2, na)], &[(2, 1)], &[(2, 1)], &[(2, na + 1)]);
        let mut slots = vec![];
        for id in 0..na {
            let f = self.rf(FK_OPEN, false, id as u16, 0);
            self.wire(vec![f]);
            if self.r(0, 3) > 0 {
                slots.push(self.open(0, 0, 2));
            }
        }
        // flood: data frames far beyond the buffer, control frames beyond the frame count
        for _ in 0..self.r(2, 6) {
            let mut fs = vec![];
            for _ in 0..self.r(1, 4) {
                let id = self.r(0, na as u64 - 1) as u16;
                match self.r(0, 5) {
                    0 => fs.push(self.rf(FK_CLOSE, false, id, 0)),
                    1 => fs.push(self.rf(FK_OPEN, false, id, 0)),
                    _ => {
                        let n = self.pick(&[1u64, 3, rfs, rfs + 1, rbs, rbs + 1, 2 * rbs + 3, 300]);
                        fs.push(self.rf(FK_DATA, false, id, n));
                    }
                }
            }
            self.wire(fs);
        }
        self.quiet();
        // now the application reads a little: the mux may pull exactly as much as was consumed
        for _ in 0..self.r(1, 5) {
            if slots.is_empty() {
                break;
            }
            let s = self.pick(&slots);
            let n = self.pick(&[1u64, 2, rfs, rfs + 1, rbs, 50]);
            self.read(0, s, n);
        }
        if !slots.is_empty() && self.r(0, 1) == 0 {
            // dropping a reader discards what is queued for it and frees its permits
            let s = self.pick(&slots);
            self.drop(0, s, "rw");
        }
        self.quiet();
    }

    /// more streams than agreed, unknown ids, invalid frame kinds
    fn raw_limits(&mut self, variant: u64) {
        let cfg = [4, 32, 4, 4];
        let (la, pc) = (self.r(0, 3) as u32, self.r(0, 3) as u32);
        let (lc, pa) = (self.r(0, 3) as u32, self.r(0, 3) as u32);
        self.init_raw(cfg, &[(1, la), (4, 1)], &[(1, lc)], &[(1, pa)], &[(1, pc), (4, 2)]);
        let nacc = std::cmp::min(la, pc) + 1;
        let ncon = std::cmp::min(lc, pa);
        // establish one stream so that there is something to observe after the run dies
        let f = self.rf(FK_OPEN, false, (nacc - 1) as u16, 0);
        self.wire(vec![f]);
        let s = self.open(0, 0, 4);
        let f = self.sf(s, 1, 6);
        self.wire(vec![f]);
        self.write(0, s, 3);
        let fk = self.pick(&[FK_OPEN, FK_DATA, FK_CLOSE]);
        let f = match variant % 6 {
            0 => self.rf(fk, false, nacc as u16, 2),              // first accept id that was not agreed
            1 => self.rf(fk, true, ncon as u16, 2),               // first connect id that was not agreed
            2 => {
                let cl = self.r(0, 1) == 0;
                self.rf(fk, cl, 8191, 2) // largest id
            }
            3 => self.rf(FK_MASK, false, (nacc - 1) as u16, 0),   // both kind bits, valid id
            4 => self.rf(FK_MASK, true, 8000, 0),                 // both kind bits, unknown id
            _ => self.rf(fk, false, (nacc - 1) as u16, 2),        // last valid id: fine
        };
        self.wire(vec![f]);
        self.read(0, s, 4);
        self.read(0, s, 10);
        self.write(0, s, 5);
        self.flush(0, s);
        self.open(0, 0, 4);
        self.quiet();
    }

    /// handshake / config boundaries
    fn raw_config(&mut self, variant: u64) {
        match variant % 8 {
            0 => self.init_raw([4, 16, 2, 4], &[(0, 8192)], &[(0, 1)], &[(0, 1)], &[(0, 2)]),
            1 => self.init_raw([4, 16, 2, 4], &[(0, 8192), (1, 1)], &[(0, 1)], &[(0, 1)], &[(0, 2), (1, 1)]),
            2 => self.init_raw([4, 16, 2, 4], &[(0, 1)], &[(0, 4096), (9, 4097)], &[(0, 1)], &[(0, 2)]),
            3 => self.init_raw([4, 16, 2, 65535], &[(0, 1)], &[(0, 1)], &[(0, 1)], &[(0, 1)]),
            4 => self.init_raw([4, 16, 2, 65536], &[(0, 1)], &[(0, 1)], &[(0, 1)], &[(0, 1)]),
            5 => self.init_raw([4, 16, 2, 4], &[(0, 2)], &[(0, 2)], &[(0, 1), (0, 2)], &[(0, 2)]),
            6 => self.init_raw([4, 16, 2, 4], &[(0, 2), (3, 2)], &[(0, 2)], &[(0, 4294967295)], &[(3, 4294967295), (7, 3)]),
            _ => self.init_raw([4, 16, 2, 4], &[(0, 2), (0, 3), (2, 1)], &[(6, 2), (2, 2)], &[(2, 9), (6, 1)], &[(2, 1), (0, 9)]),
        }
        let a = self.open(0, 0, 0);
        let c = self.open(0, 1, 0);
        let f = vec![self.rf(FK_OPEN, false, 0, 0), self.rf(FK_OPEN, false, 1, 0), self.rf(FK_OPEN, false, 2, 0)];
        self.wire(f);
        let f = self.sf(c, 0, 0);
        self.wire(vec![f]);
        self.write(0, a, 5);
        self.flush(0, a);
        self.open(0, 1, 6);
        self.open(0, 0, 2);
        self.open(0, 0, 77);
        self.quiet();
    }

    /// reuse of one reusable stream: lock hand-over, early drops, sessions must not leak into each other
    fn raw_reuse(&mut self) {
        let cfg = [self.pick(&[2u64, 4, 100]), 64, 8, self.pick(&[3u64, 8])];
        let conn = self.r(0, 1) == 1;
        let q = conn as usize;
        self.init_raw(cfg, &[(3, 1)], &[(3, 1)], &[(3, 1)], &[(3, 1)]);
        if self.r(0, 1) == 0 {
            let f = vec![self.rf(FK_CLOSE, false, 0, 0), self.rf(FK_CLOSE, true, 0, 0)];
            self.wire(f);
        }
        let mut prev: Option<u64> = None;
        for round in 0..self.r(2, 4) {
            // open
            let s;
            if conn {
                s = self.open(0, 1, 3);
                let f = self.rf(FK_OPEN, true, 0, 0);
                self.wire(vec![f]);
            } else {
                let f = self.rf(FK_OPEN, false, 0, 0);
                self.wire(vec![f]);
                s = self.open(0, 0, 3);
            }
            let _ = prev;
            // traffic in both directions
            let n1 = self.r(1, 12);
            let f = self.rf(FK_DATA, conn, 0, n1);
            self.wire(vec![f]);
            let wn = self.pick(&[1u64, 4, 9]);
            self.write(0, s, wn);
            let k = self.r(0, n1 + 2);
            self.read(0, s, k);
            match (round + self.r(0, 3)) % 4 {
                0 => {
                    // orderly: peer closes, reader sees EOS, both halves dropped
                    let f = self.rf(FK_CLOSE, conn, 0, 0);
                    self.wire(vec![f]);
                    self.read(0, s, 40);
                    self.drop(0, s, "rw");
                }
                1 => {
                    // write half first: CLOSE goes out, the stream is offered again, but the next transient stream
                    // must wait for the read half
                    self.drop(0, s, "w");
                    let s2 = self.open(0, q, 3);
                    let f = vec![self.rf(FK_DATA, conn, 0, 5), self.rf(FK_CLOSE, conn, 0, 0), self.rf(FK_OPEN, conn, 0, 0), self.rf(FK_DATA, conn, 0, 7)];
                    self.wire(f);
                    self.read(0, s, 3);
                    self.read(0, s2, 3);
                    self.drop(0, s, "r");
                    self.read(0, s2, 9);
                    let f = self.rf(FK_CLOSE, conn, 0, 0);
                    self.wire(vec![f]);
                    self.read(0, s2, 9);
                    self.drop(0, s2, "rw");
                }
                2 => {
                    // reader gives up early: queued and cached data of the old session is discarded
                    let f = vec![self.rf(FK_DATA, conn, 0, 9), self.rf(FK_DATA, conn, 0, 4)];
                    self.wire(f);
                    self.read(0, s, 1);
                    self.drop(0, s, "r");
                    self.write(0, s, 6);
                    self.drop(0, s, "w");
                    let f = self.rf(FK_CLOSE, conn, 0, 0);
                    self.wire(vec![f]);
                }
                _ => {
                    // read half only: nothing happens until the write half goes too
                    self.drop(0, s, "r");
                    let s2 = self.open(0, q, 3);
                    self.quiet();
                    self.write(0, s, 2);
                    self.drop(0, s, "w");
                    let f = vec![self.rf(FK_CLOSE, conn, 0, 0), self.rf(FK_OPEN, conn, 0, 0), self.rf(FK_DATA, conn, 0, 3), self.rf(FK_CLOSE, conn, 0, 0)];
                    self.wire(f);
                    self.read(0, s2, 5);
                    self.drop(0, s2, "rw");
                }
            }
            prev = Some(s);
        }
        self.quiet();
    }

    /// transport closed by the peer in the middle of a session
    fn raw_eof(&mut self) {
        let cfg = [4, 64, 8, 4];
        self.init_raw(cfg, &[(0, 2)], &[(0, 2)], &[(0, 2)], &[(0, 2)]);
        let f = self.rf(FK_OPEN, false, 1, 0);
        self.wire(vec![f]);
        let a = self.open(0, 0, 0);
        let c = self.open(0, 1, 0);
        let f = self.sf(c, 0, 0);
        self.wire(vec![f]);
        let c2 = self.open(0, 1, 0);
        let f = vec![self.sf(a, 1, 10), self.sf(c, 1, 3)];
        self.wire(f);
        self.read(0, c, 8);
        self.write(0, a, 3);
        self.ops.push(json!({"op":"eof"}));
        self.read(0, a, 4);
        self.read(0, a, 20);
        self.read(0, a, 1);
        self.write(0, a, 6);
        self.flush(0, a);
        self.flush(0, c);
        self.drop(0, a, "rw");
        self.read(0, c2, 1);
        self.quiet();
    }

    /// Back-pressure on the write path, raw peer: the peer stops taking bytes from the transport, so the writer task gets
    /// stuck, the slot of the write channel fills up, and `write_all` / `flush` calls block in the reservation of that
    /// slot; the harness cancels each blocked call, goes on writing on the same transient streams, lets the peer take
    /// bytes again, closes. At CLOSE the payload sent on each stream must be what its write_all calls accepted.
    fn raw_backpressure(&mut self) {
        let wfs = self.pick(&[1u64, 2, 3, 5, 8]);
        let cfg = [self.pick(&[4u64, 16]), 64, 8, wfs];
        let n = self.r(1, 3) as u32;
        let caps = [(3u64, n)];
        self.init_raw(cfg, &caps, &caps, &caps, &caps);
        let rg = [ranges(&cap_map(&caps), &caps), ranges(&cap_map(&caps), &caps)];
        if self.r(0, 3) > 0 {
            self.peer_initial_closes(&rg);
        }
        // establish 1..n transient streams, connect or accept
        let mut ss: Vec<u64> = vec![];
        let mut next_acc = 0u16;
        for _ in 0..self.r(1, n as u64) {
            if self.r(0, 1) == 0 {
                let s = self.open(0, 1, 3);
                let f = self.sf(s, 0, 0);
                self.wire(vec![f]);
                ss.push(s);
            } else {
                let f = self.rf(FK_OPEN, false, next_acc, 0);
                next_acc += 1;
                self.wire(vec![f]);
                ss.push(self.open(0, 0, 3));
            }
        }
        // some traffic while the peer still reads
        for _ in 0..self.r(0, 3) {
            let s = self.pick(&ss);
            let k = self.r(0, 2 * wfs + 1);
            self.cwrite(0, s, k);
            if self.r(0, 2) == 0 {
                self.cflush(0, s);
            }
        }
        for round in 0..self.r(1, 2) {
            // the peer stalls (after taking a few more bytes)
            let w = self.pick(&[0u64, 0, 1, 3, 7]);
            self.win(Some(w));
            for _ in 0..self.r(5, 12) {
                let s = self.pick(&ss);
                match self.r(0, 9) {
                    0..=6 => {
                        let k = self.pick(&[1, 1, wfs, wfs + 1, 2 * wfs, 2 * wfs + 1, 3 * wfs + 2, wfs.saturating_sub(1).max(1)]);
                        self.cwrite(0, s, k);
                    }
                    7 | 8 => self.cflush(0, s),
                    _ => {
                        // inbound traffic is not affected by the stalled outbound direction
                        let f = self.sf(s, 1, 3);
                        self.wire(vec![f]);
                        self.read(0, s, 2);
                    }
                }
            }
            if round == 0 && ss.len() > 1 && self.r(0, 2) == 0 {
                // a write half dropped while everything is stuck: its CLOSE has to queue behind the data
                let s = ss.remove(0);
                self.drop(0, s, "w");
            }
            if self.r(0, 2) == 0 {
                // the peer takes one frame's worth, then stalls again
                let w2 = self.r(1, wfs + 4);
                self.win(Some(w2));
                let s = self.pick(&ss);
                self.cwrite(0, s, wfs + 1);
                self.cwrite(0, s, 1);
            }
            // the peer reads again
            self.win(None);
            for _ in 0..self.r(1, 3) {
                let s = self.pick(&ss);
                let k = self.r(1, 2 * wfs + 1);
                self.cwrite(0, s, k);
            }
            if self.r(0, 1) == 0 {
                let s = self.pick(&ss);
                self.cflush(0, s);
            }
        }
        for s in ss {
            let h = self.pick(&["w", "rw"]);
            self.drop(0, s, h);
        }
        self.quiet();
    }

    /// Back-pressure end to end: two real muxes over a bounded pipe, the receiving application does not read, so the
    /// receiving mux runs out of read permits, stops pulling, the pipe fills up, the sending writer task gets stuck and
    /// `write_all` calls block in the reservation of the channel slot; they are cancelled, the sender goes on writing on
    /// the same sub-stream, the receiver reads everything up to the end of the stream.
    fn pair_backpressure(&mut self) {
        self.reset();
        let wfs = self.pick(&[1u64, 2, 3, 5, 8]);
        let rfs = self.pick(&[2u64, 4, 8]);
        let cfg_a = [16, 1000, 100, wfs];
        let cfg_b = [rfs, rfs * self.r(1, 3) + self.r(0, 1), self.r(1, 3), self.pick(&[2u64, 7])];
        let caps = [(0u64, 1u32)];
        let two = self.r(0, 2) == 0;
        let caps2 = [(0u64, 2u32)];
        let cp: &[(u64, u32)] = if two { &caps2 } else { &caps };
        self.ops.push(json!({"op":"init","reset":true,"mode":"pair","cfg":cfg_a,"pcfg":cfg_b,"acc":caps_json(cp),"con":caps_json(cp),"pacc":caps_json(cp),"pcon":caps_json(cp)}));
        let c = self.pick(&[1u64, 6, 16, 40]);
        self.cap(0, Some(c));
        if self.r(0, 2) == 0 {
            let c1 = self.r(1, 30);
            self.cap(1, Some(c1));
        }
        // side 0 connects, side 1 accepts
        let mut pairs: Vec<(u64, u64)> = vec![];
        for _ in 0..(if two { 2 } else { 1 }) {
            let a = self.open(0, 1, 0);
            let b = self.open(1, 0, 0);
            pairs.push((a, b));
        }
        let total = cfg_b[1] + c + 3 * wfs + 8;
        let mut written = 0;
        let mut guard = 0;
        // write until well beyond what the receiver's buffers, the pipe, the writer and the channel slot can hold
        while written < total + 4 * wfs && guard < 60 {
            guard += 1;
            let (a, b) = self.pick(&pairs);
            let k = self.pick(&[1, wfs, wfs + 1, 2 * wfs, 2 * wfs + 1, 3 * wfs + 1]);
            self.cwrite(0, a, k);
            written += k;
            match self.r(0, 11) {
                0 => self.cflush(0, a),
                1 => {
                    // the receiver takes a little
                    let k2 = self.r(1, 2 * rfs);
                    self.read(1, b, k2);
                }
                2 => {
                    // traffic in the other direction
                    let k2 = self.r(1, 9);
                    self.cwrite(1, b, k2);
                    self.cflush(1, b);
                    self.read(0, a, 4);
                }
                _ => {}
            }
        }
        // blocked for sure by now: a few more calls, all of which have to be cancelled, then the stream is used on
        for _ in 0..self.r(1, 4) {
            let (a, _) = self.pick(&pairs);
            if self.r(0, 3) == 0 {
                self.cflush(0, a);
            } else {
                let k2 = self.r(1, 2 * wfs + 2);
                self.cwrite(0, a, k2);
            }
        }
        // the receiver drains part of it; the sender continues
        for _ in 0..self.r(1, 3) {
            let (a, b) = self.pick(&pairs);
            let k2 = self.r(1, 3 * rfs + 2);
            self.read(1, b, k2);
            let k3 = self.r(1, 2 * wfs + 2);
            self.cwrite(0, a, k3);
        }
        for (a, b) in pairs.clone() {
            if self.r(0, 3) == 0 {
                self.cflush(0, a);
            }
            self.drop(0, a, "w");
            // read everything up to the end of the stream
            for _ in 0..3 {
                self.read(1, b, 1000);
            }
            self.read(1, b, 5);
        }
        self.quiet();
    }

    /// two real muxes back to back, buffers large enough that no flow control interferes
    fn pair_random(&mut self, len: usize) {
        self.reset();
        let cfg_a = [self.pick(&[1u64, 3, 16, 100]), 100_000, 10_000, self.pick(&[1u64, 2, 7, 64])];
        let cfg_b = [self.pick(&[2u64, 5, 80]), 100_000, 10_000, self.pick(&[3u64, 10, 150])];
        let uni = [0u64, 1, 2];
        let (acc, con, pacc, pcon) = (self.caps(&uni), self.caps(&uni), self.caps(&uni), self.caps(&uni));
        self.ops.push(json!({"op":"init","reset":true,"mode":"pair","cfg":cfg_a,"pcfg":cfg_b,"acc":caps_json(&acc),"con":caps_json(&con),"pacc":caps_json(&pacc),"pcon":caps_json(&pcon)}));
        let rga = [ranges(&cap_map(&acc), &cap_map(&pcon).into_iter().collect::<Vec<_>>()), ranges(&cap_map(&con), &cap_map(&pacc).into_iter().collect::<Vec<_>>())];
        let rgb = [ranges(&cap_map(&pacc), &cap_map(&con).into_iter().collect::<Vec<_>>()), ranges(&cap_map(&pcon), &cap_map(&acc).into_iter().collect::<Vec<_>>())];
        let rgs = [rga, rgb];
        let caps: [[Vec<u64>; 2]; 2] = [
            [cap_map(&acc).keys().copied().collect(), cap_map(&con).keys().copied().collect()],
            [cap_map(&pacc).keys().copied().collect(), cap_map(&pcon).keys().copied().collect()],
        ];
        for _ in 0..len {
            let side = self.r(0, 1) as usize;
            let have: Vec<(u64, usize, u64)> = self.have(side);
            match self.r(0, 99) {
                0..=11 => {
                    // connect on one side, usually accept on the other
                    if !caps[side][1].is_empty() {
                        let c = self.pick(&caps[side][1]);
                        let s1 = self.open(side, 1, c);
                        if self.r(0, 9) < 8 && caps[1 - side][0].contains(&c) {
                            let s2 = self.open(1 - side, 0, c);
                            if rgs[side][1].iter().any(|x| x.0 == c && x.2 > 0) {
                                self.mark(side, s1);
                                self.mark(1 - side, s2);
                            }
                        }
                    }
                }
                12..=15 => {
                    if !caps[side][0].is_empty() {
                        let c = self.pick(&caps[side][0]);
                        self.open(side, 0, c);
                    }
                }
                16..=45 if !have.is_empty() => {
                    let (slot, _, _) = self.pick(&have);
                    let n = self.pick(&[0u64, 1, 2, 3, 6, 11, 25, 60, 200]);
                    self.write(side, slot, n);
                    if self.r(0, 3) > 0 {
                        self.flush(side, slot);
                    }
                }
                46..=75 if !have.is_empty() => {
                    let (slot, _, _) = self.pick(&have);
                    let n = self.pick(&[0u64, 1, 2, 4, 9, 20, 64, 250]);
                    self.read(side, slot, n);
                }
                76..=79 if !have.is_empty() => {
                    let (slot, _, _) = self.pick(&have);
                    self.flush(side, slot);
                }
                80..=92 if !have.is_empty() => {
                    let (slot, _, _) = self.pick(&have);
                    let h = self.pick(&["r", "w", "w", "rw", "rw"]);
                    self.drop(side, slot, h);
                }
                _ => self.quiet(),
            }
        }
        for side in 0..2 {
            let have: Vec<(u64, usize, u64)> = self.likely[side].clone();
            for (slot, _, _) in have {
                if self.r(0, 1) == 0 {
                    self.drop(side, slot, "w");
                }
            }
        }
        for side in 0..2 {
            let have: Vec<(u64, usize, u64)> = self.slots[side].clone();
            for (slot, _, _) in have {
                let est = self.likely[side].iter().any(|e| e.0 == slot);
                if est || self.r(0, 4) == 0 {
                    self.read(side, slot, 1000);
                }
            }
        }
        self.quiet();
    }
}

/// Runs the generated operations once on the real code to learn, per op, in which order the runtime served the
/// stream queues, and records it in the op line (`"adv"`): the model's scheduler follows this advice (it only
/// chooses among interleavings its transition system allows; everything observable is still compared).
fn annotate(ops: Vec<Value>, opts: &Opts) -> Vec<Value> {
    let mut o2 = opts.clone();
    o2.out = opts.out.join("gen-prerun");
    let mut out = match Out::new(&o2) {
        Ok(o) => o,
        Err(_) => return ops,
    };
    let mut p = C14 { sess: None, trace: vec![], flushed: None };
    let mut res = vec![];
    for mut op in ops {
        let obs = p.exec(&op, &mut out);
        if let Some(a) = obs["_adv"].as_array() {
            if !a.is_empty() {
                op["adv"] = Value::Array(a.clone());
            }
        }
        res.push(op);
    }
    p.teardown();
    res
}

fn gen_all(opts: &Opts) -> Vec<Value> {
    let mut rng: StdRng = opts.rng();
    let mut g = G::new(&mut rng);
    // directed families (always)
    for v in 0..8 {
        g.raw_config(v);
    }
    for v in 0..12 {
        g.raw_limits(v);
    }
    for _ in 0..6 {
        g.raw_reuse();
    }
    g.raw_eof();
    for _ in 0..10 {
        g.raw_flood();
    }
    for _ in 0..16 {
        g.raw_backpressure();
    }
    for _ in 0..12 {
        g.pair_backpressure();
    }
    // random sessions; opts.n = number of sessions
    let n = opts.n;
    for i in 0..n {
        match i % 12 {
            0..=3 => {
                let len = g.r(10, 45) as usize;
                g.raw_random(len, false)
            }
            4 | 5 => {
                let len = g.r(10, 45) as usize;
                g.raw_random(len, true)
            }
            6 => g.raw_flood(),
            7 => g.raw_reuse(),
            10 => g.raw_backpressure(),
            11 => g.pair_backpressure(),
            _ => {
                let len = g.r(15, 60) as usize;
                g.pair_random(len)
            }
        }
    }
    let ops = std::mem::take(&mut g.ops);
    annotate(ops, opts)
}
