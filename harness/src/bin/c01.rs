//! C01: agreement — multi-replica simulation of real replicas with a Byzantine actor and an adversarial scheduler;
//! every replica step is cross-checked against the Layer-I model.
fn main() {
    vharness::main_for(&mut vharness::netsim::NetSim::new(false));
}
