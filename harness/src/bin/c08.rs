//! C08: the block store (`EngineManager` + `BlockStore`) driven through its public API against a storage stub
//! (`EngineInterface`) whose persisted watch, hand-off acceptance and durable contents the harness controls.
//!
//! Every operation line is executed on the real code on a single-threaded runtime and the tasks are then run to
//! quiescence; the observation is the snapshot the Lean driver (`lean/Driver/C08.lean`) prints for the model.
//! Blocks are genuinely signed by a 6-validator committee (or deliberately damaged), built on demand.
//!
//! Property monitors (S), evaluated on the implementation alone after every operation:
//!   verified      every block the store returns from its cache or hands to storage passes an independent
//!                 verification (real `FinalBlock::verify` / pre-genesis rule)
//!   contiguous    `get_block(n)` is `Some(block n)` for every n of `queued()`, `None` outside; ranges ordered
//!   append-only   a number answered from the cache / handed to storage never changes its block (per incarnation)
//!   hand-off      numbers strictly increase; each is previous+1 or the store's `persisted().next()` at the call
//!   storage-gap   the storage never has to accept a block above its head
//!   cache-bound   blocks served from memory <= max(CACHE_CAPACITY, queued.next - persisted.next)
//!   regress       a report with a lower head stops the runner and leaves the store's `persisted()` unchanged
use std::{
    collections::{BTreeMap, HashMap, VecDeque},
    sync::{Arc, Mutex},
};

use rand::{rngs::StdRng, seq::SliceRandom, Rng, SeedableRng};
use serde_json::{json, Value};
use vharness::{catch, Opts, Out, Prop};
use zksync_concurrency::{ctx, scope, sync, time};
use zksync_consensus_engine::{BlockStoreState, EngineInterface, EngineManager, Last, Transaction};
use zksync_consensus_roles::validator::{
    self,
    testonly::{Setup, SetupSpec},
    Block, BlockNumber,
};

const NVALS: usize = 6;
const GFIRST: u64 = 3;

// ------------------------------------------------------------------------------------------------ blocks

/// Normalised block descriptor (what the model sees).
#[derive(Clone, Debug, PartialEq, Eq, Hash)]
struct Desc {
    pre: bool,
    n: u64,
    c: u64,
    e: u64,
    g: bool,
    p: bool,
    sl: usize,
    s: Vec<usize>,
    sg: bool,
    j: bool,
}

impl Desc {
    fn ident(&self) -> Value {
        let mask: u64 = if self.pre { 0 } else { self.s.iter().map(|i| 1u64 << i).sum() };
        json!([self.n, self.c, if self.pre { "p" } else { "f" }, mask])
    }
}

struct Chain {
    setup: Setup,
    /// secret key of the validator at schedule index i
    keys: Vec<validator::SecretKey>,
    built: HashMap<Desc, Block>,
    /// every block ever built, by number (to map a `Block` back to its descriptor)
    by_num: HashMap<u64, Vec<(Block, Desc)>>,
    /// independent verification verdicts, by descriptor
    valid: HashMap<Desc, bool>,
    other_genesis: validator::GenesisHash,
    /// `genesis.first_block` of this chain
    g: u64,
}

impl Chain {
    fn new(seed: u64, g: u64) -> Self {
        let rng = &mut StdRng::seed_from_u64(seed ^ 0xC08 ^ (g << 32));
        let mut spec = SetupSpec::new(rng, NVALS);
        spec.first_block = BlockNumber(g);
        spec.first_pregenesis_block = BlockNumber(g); // pre-genesis blocks are built on demand
        let setup = Setup::from_spec(rng, spec);
        let schedule = setup.validators_schedule().clone();
        let mut keys: Vec<Option<validator::SecretKey>> = vec![None; NVALS];
        for k in &setup.validator_keys {
            keys[schedule.index(&k.public()).unwrap()] = Some(k.clone());
        }
        Self {
            keys: keys.into_iter().map(|k| k.unwrap()).collect(),
            other_genesis: rng.gen(),
            g,
            setup,
            built: HashMap::new(),
            by_num: HashMap::new(),
            valid: HashMap::new(),
        }
    }

    fn payload(n: u64, c: u64, good: bool) -> validator::Payload {
        validator::Payload(format!("{}-{n}-{c}", if good { "blk" } else { "BAD" }).into_bytes())
    }

    fn qc(&self, n: u64, payload: &validator::Payload, signers: &[usize]) -> validator::v2::CommitQC {
        let schedule = self.setup.validators_schedule();
        let msg = validator::v2::ReplicaCommit {
            view: validator::v2::View {
                genesis: self.setup.genesis_hash(),
                number: validator::ViewNumber(n),
                epoch: validator::EpochNumber(0),
            },
            proposal: validator::v2::BlockHeader { number: BlockNumber(n), payload: payload.hash() },
        };
        let mut qc = validator::v2::CommitQC::new(msg.clone(), schedule);
        for i in signers {
            qc.add(&self.keys[*i].sign_msg(msg.clone()), self.setup.genesis_hash(), validator::EpochNumber(0), schedule)
                .unwrap();
        }
        qc
    }

    fn build(&mut self, d: &Desc) -> Block {
        if let Some(b) = self.built.get(d) {
            return b.clone();
        }
        let b: Block = if d.pre {
            validator::PreGenesisBlock {
                number: BlockNumber(d.n),
                payload: Self::payload(d.n, d.c, true),
                justification: validator::Justification(vec![if d.j { 1 } else { 0 }, d.c as u8]),
            }
            .into()
        } else {
            let payload = Self::payload(d.n, d.c, true);
            let signers: Vec<usize> = d.s.iter().copied().filter(|i| *i < NVALS).collect();
            let mut qc = self.qc(d.n, &payload, &signers);
            if !d.sg {
                // the aggregate of the same signers over a different message
                let other = self.qc(d.n, &Self::payload(d.n, d.c + 1000, true), &signers);
                qc.signature = other.signature;
            }
            if d.sl != NVALS || signers.len() != d.s.len() {
                let mut bits = bit_vec::BitVec::from_elem(d.sl, false);
                for i in &d.s {
                    if *i < d.sl {
                        bits.set(*i, true);
                    }
                }
                qc.signers = validator::v2::Signers(bits);
            }
            if d.e != 0 {
                qc.message.view.epoch = validator::EpochNumber(d.e);
            }
            if !d.g {
                qc.message.view.genesis = self.other_genesis;
            }
            validator::v2::FinalBlock { payload: Self::payload(d.n, d.c, d.p), justification: qc }.into()
        };
        self.built.insert(d.clone(), b.clone());
        self.by_num.entry(d.n).or_default().push((b.clone(), d.clone()));
        b
    }

    fn canonical_desc(&self, n: u64, c: u64) -> Desc {
        if n < self.g {
            Desc { pre: true, n, c, e: 0, g: true, p: true, sl: 0, s: vec![], sg: true, j: true }
        } else {
            Desc { pre: false, n, c, e: 0, g: true, p: true, sl: NVALS, s: (0..NVALS).collect(), sg: true, j: true }
        }
    }

    fn canonical(&mut self, n: u64) -> Block {
        let d = self.canonical_desc(n, 0);
        self.build(&d)
    }

    fn describe(&self, b: &Block) -> Option<Desc> {
        self.by_num.get(&b.number().0)?.iter().find(|(x, _)| x == b).map(|(_, d)| d.clone())
    }

    /// Independent oracle: does this block pass the verification the property demands? (real crypto)
    fn independently_valid(&mut self, b: &Block) -> bool {
        let d = self.describe(b);
        if let Some(d) = &d {
            if let Some(v) = self.valid.get(d) {
                return *v;
            }
        }
        let v = match b {
            Block::PreGenesis(p) => p.number < BlockNumber(self.g) && p.justification.0.first() == Some(&1),
            Block::FinalV2(f) => {
                f.epoch() == validator::EpochNumber(0)
                    && f.verify(self.setup.genesis_hash(), validator::EpochNumber(0), self.setup.validators_schedule()).is_ok()
            }
        };
        if let Some(d) = d {
            self.valid.insert(d, v);
        }
        v
    }
}

// ------------------------------------------------------------------------------------------------ storage stub

#[derive(Debug, Default)]
struct Gate {
    credits: u64,
    fail_next: bool,
}

#[derive(Debug, Default)]
struct StorageInner {
    disk: BTreeMap<u64, Block>,
    inbox: VecDeque<Block>,
    /// (block, store's persisted().next() at the call) for every `queue_next_block` of this incarnation
    handoffs: Vec<(Block, Option<u64>)>,
    get_calls: u64,
    gap_seen: Option<(u64, u64)>,
    manager: Option<std::sync::Weak<EngineManager>>,
    /// every value of `persisted.next()` the storage ever reported
    published: std::collections::BTreeSet<u64>,
    /// the hand-off task called `queue_next_block` more than `MAX_HANDOFFS` times in one incarnation
    runaway: bool,
}

/// No case hands over anywhere near this many blocks; a task that does is looping.
const MAX_HANDOFFS: usize = 20_000;

#[derive(Debug)]
struct Storage {
    genesis: validator::Genesis,
    persisted: sync::watch::Sender<BlockStoreState>,
    gate: sync::watch::Sender<Gate>,
    inner: Mutex<StorageInner>,
    /// `mt` cases: every hand-off is made durable inside `queue_next_block` (like `in_memory::Engine`)
    auto: bool,
}

impl Storage {
    /// Reports `p` (must be called with `inner` locked by the caller, so that reports are ordered).
    fn report(&self, inner: &mut StorageInner, p: BlockStoreState) {
        inner.published.insert(p.next().0);
        self.persisted.send_replace(p);
    }
    /// `in_memory::Engine::queue_next_block`: ignore a block below the head, store the block at the head.
    fn persist_now(&self, block: Block) {
        let mut inner = self.inner.lock().unwrap();
        let mut p = self.persisted.borrow().clone();
        let want = p.next();
        if block.number() < want {
            return;
        }
        if block.number() > want {
            inner.gap_seen = Some((block.number().0, want.0));
            return;
        }
        p.last = Some(last_of(&block));
        inner.disk.insert(block.number().0, block);
        self.report(&mut inner, p);
    }
    /// side channel: the storage obtains `blocks` (numbers `next ..= l`) unless its head is already beyond `l`
    fn jump_to(&self, l: u64, blocks: &BTreeMap<u64, Block>) {
        let mut inner = self.inner.lock().unwrap();
        let mut p = self.persisted.borrow().clone();
        if p.next().0 > l {
            return;
        }
        for n in p.next().0..=l {
            inner.disk.insert(n, blocks[&n].clone());
        }
        p.last = Some(last_of(&blocks[&l]));
        self.report(&mut inner, p);
    }
}

fn last_of(b: &Block) -> Last {
    match b {
        Block::PreGenesis(b) => Last::PreGenesis(b.number),
        Block::FinalV2(b) => Last::FinalV2(b.justification.clone()),
    }
}

#[derive(Debug, Clone)]
struct Iface(Arc<Storage>);

#[async_trait::async_trait]
impl EngineInterface for Iface {
    async fn genesis(&self, _ctx: &ctx::Ctx) -> ctx::Result<validator::Genesis> {
        Ok(self.0.genesis.clone())
    }
    async fn get_validator_schedule(&self, _ctx: &ctx::Ctx, _n: BlockNumber) -> ctx::Result<(validator::Schedule, BlockNumber)> {
        Ok((self.0.genesis.validators_schedule.clone().unwrap(), self.0.genesis.first_block))
    }
    async fn get_pending_validator_schedule(&self, _ctx: &ctx::Ctx, _n: BlockNumber) -> ctx::Result<Option<(validator::Schedule, BlockNumber)>> {
        Ok(None)
    }
    fn persisted(&self) -> sync::watch::Receiver<BlockStoreState> {
        self.0.persisted.subscribe()
    }
    async fn get_block(&self, _ctx: &ctx::Ctx, number: BlockNumber) -> ctx::Result<Block> {
        let mut inner = self.0.inner.lock().unwrap();
        inner.get_calls += 1;
        match inner.disk.get(&number.0) {
            Some(b) => Ok(b.clone()),
            None => Err(anyhow::format_err!("not found").into()),
        }
    }
    async fn queue_next_block(&self, ctx: &ctx::Ctx, block: Block) -> ctx::Result<()> {
        {
            let mut inner = self.0.inner.lock().unwrap();
            if inner.handoffs.len() >= MAX_HANDOFFS {
                inner.runaway = true;
                return Err(anyhow::format_err!("runaway hand-off task").into());
            }
            let at = inner.manager.as_ref().and_then(|m| m.upgrade()).map(|m| m.persisted().next().0);
            inner.handoffs.push((block.clone(), at));
        }
        if self.0.auto {
            self.0.persist_now(block);
            return Ok(());
        }
        let mut gate = self.0.gate.subscribe();
        sync::wait_for(ctx, &mut gate, |g| g.fail_next || g.credits > 0).await?;
        let mut fail = false;
        self.0.gate.send_modify(|g| {
            if g.fail_next {
                g.fail_next = false;
                fail = true;
            } else {
                g.credits -= 1;
            }
        });
        if fail {
            return Err(anyhow::format_err!("storage failure (injected)").into());
        }
        self.0.inner.lock().unwrap().inbox.push_back(block);
        Ok(())
    }
    async fn verify_pregenesis_block(&self, _ctx: &ctx::Ctx, block: &validator::PreGenesisBlock) -> ctx::Result<()> {
        if block.justification.0.first() == Some(&1) {
            Ok(())
        } else {
            Err(anyhow::format_err!("invalid pre-genesis block").into())
        }
    }
    async fn verify_payload(&self, _ctx: &ctx::Ctx, _n: BlockNumber, _p: &validator::Payload) -> ctx::Result<()> {
        Ok(())
    }
    async fn propose_payload(&self, _ctx: &ctx::Ctx, _n: BlockNumber) -> ctx::Result<validator::Payload> {
        Ok(validator::Payload(vec![]))
    }
    async fn get_state(&self, _ctx: &ctx::Ctx) -> ctx::Result<validator::ReplicaState> {
        Ok(validator::ReplicaState::default())
    }
    async fn set_state(&self, _ctx: &ctx::Ctx, _s: &validator::ReplicaState) -> ctx::Result<()> {
        Ok(())
    }
    async fn push_tx(&self, _ctx: &ctx::Ctx, _tx: Transaction) -> ctx::Result<bool> {
        Ok(false)
    }
}

// ------------------------------------------------------------------------------------------------ a lying peer

/// Storage of the remote peer in the `net` family: it reports a durable range and answers `get_block(n)` with
/// whatever block the scenario programmed for `n` (possibly one with a different number, or a damaged one);
/// numbers without a programmed answer are never answered.
#[derive(Debug)]
struct Liar {
    genesis: validator::Genesis,
    persisted: sync::watch::Sender<BlockStoreState>,
    answers: BTreeMap<u64, Block>,
    served: Mutex<BTreeMap<u64, u64>>,
}

#[derive(Debug, Clone)]
struct LiarIface(Arc<Liar>);

#[async_trait::async_trait]
impl EngineInterface for LiarIface {
    async fn genesis(&self, _ctx: &ctx::Ctx) -> ctx::Result<validator::Genesis> {
        Ok(self.0.genesis.clone())
    }
    async fn get_validator_schedule(&self, _ctx: &ctx::Ctx, _n: BlockNumber) -> ctx::Result<(validator::Schedule, BlockNumber)> {
        Ok((self.0.genesis.validators_schedule.clone().unwrap(), self.0.genesis.first_block))
    }
    async fn get_pending_validator_schedule(&self, _ctx: &ctx::Ctx, _n: BlockNumber) -> ctx::Result<Option<(validator::Schedule, BlockNumber)>> {
        Ok(None)
    }
    fn persisted(&self) -> sync::watch::Receiver<BlockStoreState> {
        self.0.persisted.subscribe()
    }
    async fn get_block(&self, ctx: &ctx::Ctx, number: BlockNumber) -> ctx::Result<Block> {
        match self.0.answers.get(&number.0) {
            Some(b) => {
                *self.0.served.lock().unwrap().entry(number.0).or_default() += 1;
                Ok(b.clone())
            }
            None => {
                ctx.canceled().await;
                Err(ctx::Canceled.into())
            }
        }
    }
    async fn queue_next_block(&self, _ctx: &ctx::Ctx, _block: Block) -> ctx::Result<()> {
        Ok(())
    }
    async fn verify_pregenesis_block(&self, _ctx: &ctx::Ctx, _block: &validator::PreGenesisBlock) -> ctx::Result<()> {
        Ok(())
    }
    async fn verify_payload(&self, _ctx: &ctx::Ctx, _n: BlockNumber, _p: &validator::Payload) -> ctx::Result<()> {
        Ok(())
    }
    async fn propose_payload(&self, _ctx: &ctx::Ctx, _n: BlockNumber) -> ctx::Result<validator::Payload> {
        Ok(validator::Payload(vec![]))
    }
    async fn get_state(&self, _ctx: &ctx::Ctx) -> ctx::Result<validator::ReplicaState> {
        Ok(validator::ReplicaState::default())
    }
    async fn set_state(&self, _ctx: &ctx::Ctx, _s: &validator::ReplicaState) -> ctx::Result<()> {
        Ok(())
    }
    async fn push_tx(&self, _ctx: &ctx::Ctx, _tx: Transaction) -> ctx::Result<bool> {
        Ok(false)
    }
}

// ------------------------------------------------------------------------------------------------ the node

struct Node {
    manager: Arc<EngineManager>,
    stop: Option<tokio::sync::oneshot::Sender<()>>,
    scope_task: tokio::task::JoinHandle<()>,
    /// Some(is_err) once `EngineManagerRunner::run` has returned
    runner_result: Arc<Mutex<Option<bool>>>,
    reqs: BTreeMap<u64, tokio::task::JoinHandle<()>>,
    /// blocks of the calls that have not returned yet
    req_blocks: BTreeMap<u64, Block>,
    finished: Arc<Mutex<Vec<(u64, bool)>>>,
    /// append-only monitor: block identity first seen in memory / handed over, per number
    seen: BTreeMap<u64, Block>,
    handoffs_reported: usize,
    /// highest `queued().next()` / `persisted().next()` observed in this incarnation (theorem next_monotone)
    max_next: (u64, u64),
}

struct World {
    storage: Arc<Storage>,
    node: Node,
    racy: bool,
    mt: bool,
    honest: bool,
    /// highest head the storage ever reported in this case and the store's persisted() before a regress
    regress_pending: Option<BlockStoreState>,
}

pub struct C08 {
    rt: tokio::runtime::Runtime,
    /// multi-threaded runtime of the `mt` cases
    mt_rt: tokio::runtime::Runtime,
    chain: Chain,
    /// the chains of the other `genesis.first_block` values used so far (an op with a `gfirst` field selects one)
    chains: HashMap<u64, Chain>,
    seed: u64,
    world: Option<World>,
    capacity: u64,
    case_ops: Vec<Value>,
    /// monitors that already reported in the current case
    reported: std::collections::HashSet<String>,
    livelock: bool,
}

fn range_json(s: &BlockStoreState) -> Value {
    json!([s.first.0, s.last.as_ref().map(|l| l.number().0)])
}

fn read_capacity() -> u64 {
    let src = std::fs::read_to_string("/repo/node/libs/engine/src/block_store.rs").unwrap_or_default();
    for line in src.lines() {
        if let Some(i) = line.find("const CACHE_CAPACITY: usize =") {
            let rest = &line[i + "const CACHE_CAPACITY: usize =".len()..];
            if let Ok(v) = rest.trim().trim_end_matches(';').trim().parse::<u64>() {
                return v;
            }
        }
    }
    100
}

impl C08 {
    fn new(seed: u64) -> Self {
        Self {
            rt: tokio::runtime::Builder::new_current_thread().enable_all().build().unwrap(),
            mt_rt: tokio::runtime::Builder::new_multi_thread().worker_threads(4).enable_all().build().unwrap(),
            chain: Chain::new(seed, GFIRST),
            chains: HashMap::new(),
            seed,
            world: None,
            capacity: read_capacity(),
            case_ops: vec![],
            reported: Default::default(),
            livelock: false,
        }
    }

    fn start_node(rt: &tokio::runtime::Runtime, storage: &Arc<Storage>) -> Result<Node, String> {
        let storage = storage.clone();
        rt.block_on(async {
            let root = ctx::test_root(&ctx::RealClock);
            {
                let mut inner = storage.inner.lock().unwrap();
                inner.inbox.clear();
                inner.handoffs.clear();
                inner.manager = None;
            }
            storage.gate.send_modify(|g| g.fail_next = false);
            let (manager, runner) = EngineManager::new(&root, Box::new(Iface(storage.clone())), time::Duration::seconds(1))
                .await
                .map_err(|e| format!("{e:?}"))?;
            storage.inner.lock().unwrap().manager = Some(Arc::downgrade(&manager));
            let (stop_tx, stop_rx) = tokio::sync::oneshot::channel::<()>();
            let runner_result = Arc::new(Mutex::new(None));
            let rr = runner_result.clone();
            let scope_task = tokio::spawn(async move {
                let _: Result<(), ctx::Error> = scope::run!(&root, |ctx, s| async {
                    s.spawn_bg(async {
                        let r = runner.run(ctx).await;
                        *rr.lock().unwrap() = Some(r.is_err());
                        Ok(())
                    });
                    let _ = stop_rx.await;
                    Ok(())
                })
                .await;
            });
            Ok(Node {
                manager,
                stop: Some(stop_tx),
                scope_task,
                runner_result,
                reqs: BTreeMap::new(),
                req_blocks: BTreeMap::new(),
                finished: Arc::new(Mutex::new(vec![])),
                seen: BTreeMap::new(),
                max_next: (0, 0),
                handoffs_reported: 0,
            })
        })
    }

    fn stop_node(rt: &tokio::runtime::Runtime, node: &mut Node) {
        for (_, h) in std::mem::take(&mut node.reqs) {
            h.abort();
        }
        if let Some(stop) = node.stop.take() {
            let _ = stop.send(());
        }
        rt.block_on(async {
            let _ = (&mut node.scope_task).await;
            for _ in 0..4 {
                tokio::task::yield_now().await;
            }
        });
    }

    /// Runs the tasks until nothing observable changes any more.
    fn quiesce(&mut self) {
        let w = self.world.as_mut().unwrap();
        let storage = w.storage.clone();
        let node = &mut w.node;
        let manager = node.manager.clone();
        let finished = node.finished.clone();
        let rr = node.runner_result.clone();
        let livelock = self.rt.block_on(async {
            let snap = || {
                let (h, i) = {
                    let inner = storage.inner.lock().unwrap();
                    (inner.handoffs.len(), inner.inbox.len())
                };
                let f = finished.lock().unwrap().len();
                let r = *rr.lock().unwrap();
                (manager.queued(), manager.persisted(), h, i, f, r)
            };
            let mut last = snap();
            let mut stable = 0;
            let mut rounds = 0;
            while stable < 3 {
                for _ in 0..8 {
                    tokio::task::yield_now().await;
                }
                let now = snap();
                if now == last {
                    stable += 1;
                } else {
                    stable = 0;
                    last = now;
                }
                rounds += 1;
                if rounds > 4000 {
                    return true;
                }
            }
            false
        });
        self.livelock |= livelock;
        node.reqs.retain(|_, h| !h.is_finished());
        let live: Vec<u64> = node.reqs.keys().copied().collect();
        node.req_blocks.retain(|id, _| live.contains(id));
    }

    fn parse_desc(g: u64, n: u64, b: &Value) -> Desc {
        let k = b["k"].as_str().unwrap_or("a");
        let pre = match k {
            "p" => true,
            "f" => false,
            _ => n < g,
        };
        let c = b["c"].as_u64().unwrap_or(0);
        if pre {
            Desc { pre, n, c, e: 0, g: true, p: true, sl: 0, s: vec![], sg: true, j: b["j"].as_bool().unwrap_or(true) }
        } else {
            Desc {
                pre,
                n,
                c,
                e: b["e"].as_u64().unwrap_or(0),
                g: b["g"].as_bool().unwrap_or(true),
                p: b["p"].as_bool().unwrap_or(true),
                sl: b["sl"].as_u64().unwrap_or(NVALS as u64) as usize,
                s: b["s"].as_array().map(|a| a.iter().map(|x| x.as_u64().unwrap() as usize).collect()).unwrap_or_default(),
                sg: b["sg"].as_bool().unwrap_or(true),
                j: true,
            }
        }
    }

    fn resolve(base: u64, op: &Value) -> Option<u64> {
        if let Some(n) = op["n"].as_u64() {
            return Some(n);
        }
        let r = op["rel"].as_i64()?;
        let v = base as i128 + r as i128;
        if v < 0 {
            None
        } else {
            Some(v as u64)
        }
    }

    fn ident(&self, b: &Block) -> Value {
        match self.chain.describe(b) {
            Some(d) => d.ident(),
            None => json!([b.number().0, "unknown"]),
        }
    }

    /// `get_block(n)` on the real manager, classified like the model's `GetResult`.
    fn get(&mut self, n: u64) -> (String, Option<Block>) {
        let w = self.world.as_ref().unwrap();
        let before = w.storage.inner.lock().unwrap().get_calls;
        let manager = w.node.manager.clone();
        let rt = if w.mt { &self.mt_rt } else { &self.rt };
        let r = rt.block_on(async {
            let root = ctx::test_root(&ctx::RealClock);
            manager.get_block(&root, BlockNumber(n)).await
        });
        let after = w.storage.inner.lock().unwrap().get_calls;
        match r {
            Ok(None) => ("absent".into(), None),
            Ok(Some(b)) => (if after > before { "stored" } else { "cached" }.into(), Some(b)),
            Err(_) => ("err".into(), None),
        }
    }

    fn get_json(&mut self, n: u64) -> Value {
        let (src, b) = self.get(n);
        match b {
            Some(b) => json!([n, src, self.ident(&b)]),
            None => json!([n, src]),
        }
    }

    /// Property monitors on the implementation (S).
    fn monitors(&mut self, out: &mut Out, op: &Value) {
        let (q, p, sp, honest, racy) = {
            let w = self.world.as_ref().unwrap();
            (w.node.manager.queued(), w.node.manager.persisted(), w.storage.persisted.borrow().clone(), w.honest, w.racy)
        };
        let _ = racy;
        let mut found: Vec<(String, String)> = vec![];
        let mut fail = |site: &str, what: String, _this: &Self| found.push((site.to_string(), what));
        // append-only (theorem next_monotone): within one incarnation the store's head never moves backwards — whatever
        // the storage reports (pruning included), blocks that were announced as available above the pruning point stay
        {
            let (mq, mp) = self.world.as_ref().unwrap().node.max_next;
            if q.next().0 < mq {
                fail("append-only/head-moved-back", format!("queued.next() went from {mq} back to {} (queued {})", q.next().0, range_json(&q)), self);
            }
            if p.next().0 < mp && honest {
                fail("append-only/head-moved-back", format!("persisted.next() went from {mp} back to {}", p.next().0), self);
            }
            self.world.as_mut().unwrap().node.max_next = (mq.max(q.next().0), mp.max(p.next().0));
        }
        // ranges ordered
        if p.next() > q.next() || p.first > q.first {
            fail("ranges", format!("persisted {} runs ahead of queued {}", range_json(&p), range_json(&q)), self);
        }
        // contiguity / availability / verified / append-only over the whole available range (+ one on each side)
        let lo = q.first.0.saturating_sub(1);
        let hi = q.next().0 + 1;
        let mut cached = 0u64;
        if hi - lo <= 2000 {
            for n in lo..=hi {
                let (src, b) = self.get(n);
                let inside = q.contains(BlockNumber(n));
                match (inside, src.as_str(), b) {
                    (false, "absent", _) => {}
                    (false, s, _) => fail("contiguous", format!("block {n} outside queued {} answered {s}", range_json(&q)), self),
                    (true, "absent", _) => fail("contiguous", format!("available block {n} answered None"), self),
                    (true, "err", _) => {
                        if honest && n >= sp.first.0 {
                            fail("readable", format!("available block {n} cannot be read (storage first = {})", sp.first.0), self);
                        }
                    }
                    (true, s, Some(b)) => {
                        if b.number().0 != n {
                            fail("contiguous", format!("get_block({n}) returned block {}", b.number().0), self);
                        }
                        if s == "cached" {
                            cached += 1;
                            if !self.chain.independently_valid(&b) {
                                fail("verified", format!("cache holds a block that does not verify: {}", self.ident(&b)), self);
                            }
                            let old = self.world.as_ref().unwrap().node.seen.get(&n).cloned();
                            match old {
                                Some(old) if old != b => {
                                    let (o, nw) = (self.ident(&old), self.ident(&b));
                                    fail("append-only", format!("block {n} was {o} and is now {nw}"), self)
                                }
                                Some(_) => {}
                                None => {
                                    self.world.as_mut().unwrap().node.seen.insert(n, b);
                                }
                            }
                        }
                    }
                    (true, _, None) => {}
                }
            }
            let bound = self.capacity.max(q.next().0 - p.next().0.min(q.next().0));
            if cached > bound {
                fail("cache-bound", format!("{cached} blocks served from memory, bound {bound}"), self);
            }
        }
        // hand-offs of this incarnation
        let handoffs: Vec<(Block, Option<u64>)> = self.world.as_ref().unwrap().storage.inner.lock().unwrap().handoffs.clone();
        let mt = self.world.as_ref().unwrap().mt;
        let published = self.world.as_ref().unwrap().storage.inner.lock().unwrap().published.clone();
        // sequential cases: the store's `persisted().next()` read inside the call; `mt` cases (the watcher may run
        // between the task's read and the call): any head the storage has reported
        let is_head = |n: u64, at: &Option<u64>| Some(n) == *at || (mt && published.contains(&n));
        let from = self.world.as_ref().unwrap().node.handoffs_reported;
        for i in from..handoffs.len() {
            let (b, at) = &handoffs[i];
            let n = b.number().0;
            if !self.chain.independently_valid(b) {
                fail("verified", format!("a block that does not verify was handed to storage: {}", self.ident(b)), self);
            }
            if i > 0 {
                let prev = handoffs[i - 1].0.number().0;
                if n <= prev {
                    fail("hand-off", format!("hand-off {n} after {prev} is not increasing"), self);
                }
                if n != prev + 1 && !is_head(n, at) {
                    fail("hand-off", format!("hand-off {n} follows neither {prev} nor the durable head {at:?}"), self);
                }
            } else if !is_head(n, at) {
                fail("hand-off", format!("first hand-off {n} is not the durable head {at:?}"), self);
            }
            let old = self.world.as_ref().unwrap().node.seen.get(&n).cloned();
            match old {
                Some(old) if &old != b => {
                    let (o, nw) = (self.ident(&old), self.ident(b));
                    fail("append-only", format!("block {n} was {o} in the store but {nw} was handed to storage"), self)
                }
                Some(_) => {}
                None => {
                    self.world.as_mut().unwrap().node.seen.insert(n, b.clone());
                }
            }
        }
        if self.world.as_ref().unwrap().storage.inner.lock().unwrap().runaway {
            fail("hand-off", format!("more than {MAX_HANDOFFS} hand-offs in one incarnation: the hand-off task is looping"), self);
        }
        if std::mem::take(&mut self.livelock) {
            fail("livelock", "the tasks did not become quiescent within 4000 scheduler rounds".to_string(), self);
        }
        // storage gap
        if let Some((n, want)) = self.world.as_ref().unwrap().storage.inner.lock().unwrap().gap_seen.take() {
            if honest {
                fail("storage-gap", format!("storage had to accept block {n} while its head was {want}"), self);
            }
        }
        // regress
        let pending = self.world.as_mut().unwrap().regress_pending.take();
        if let Some(before) = pending {
            let w = self.world.as_ref().unwrap();
            let dead = w.node.runner_result.lock().unwrap().is_some();
            if !dead || w.node.manager.persisted() != before {
                fail("regress", format!("a report with a lower head was not rejected (dead={dead})"), self);
            }
        }
        // one report per monitor and case (the first failing operation), with the case's operations as the replay
        for (site, what) in found {
            if self.reported.insert(site.clone()) {
                out.oracle_fail_ops(&site, &what, op.clone(), &self.case_ops);
            }
        }
    }

    fn snapshot(&mut self, mut extra: serde_json::Map<String, Value>) -> Value {
        let w = self.world.as_mut().unwrap();
        let q = w.node.manager.queued();
        let p = w.node.manager.persisted();
        let handoffs: Vec<Block> = w.storage.inner.lock().unwrap().handoffs.iter().map(|(b, _)| b.clone()).collect();
        let from = w.node.handoffs_reported.min(handoffs.len());
        w.node.handoffs_reported = handoffs.len();
        let mut fin: Vec<(u64, bool)> = std::mem::take(&mut *w.node.finished.lock().unwrap());
        fin.sort();
        let live = w.node.reqs.len();
        let dead = w.node.runner_result.lock().unwrap().is_some();
        let ep = w.storage.persisted.borrow().clone();
        let racy = w.racy;
        let h: Vec<Value> = handoffs[from..].iter().map(|b| self.ident(b)).collect();
        let hn: Vec<u64> = handoffs[from..].iter().map(|b| b.number().0).collect();
        extra.insert("q".into(), range_json(&q));
        extra.insert("p".into(), range_json(&p));
        extra.insert(if racy { "_h" } else { "h" }.into(), json!(h));
        extra.insert("hn".into(), json!(hn));
        extra.insert("fin".into(), json!(fin.iter().map(|(i, ok)| json!([i, ok])).collect::<Vec<_>>()));
        extra.insert("live".into(), json!(live));
        extra.insert("dead".into(), json!(dead));
        extra.insert("ep".into(), range_json(&ep));
        Value::Object(extra)
    }

    fn publish(&mut self, p: BlockStoreState, add: Vec<Block>, honest: bool) {
        let w = self.world.as_mut().unwrap();
        let old_next = w.storage.persisted.borrow().next();
        if p.next() < old_next {
            w.honest = false;
            if w.node.runner_result.lock().unwrap().is_none() && p.next() < w.node.manager.persisted().next() {
                w.regress_pending = Some(w.node.manager.persisted());
            }
        }
        if !honest {
            w.honest = false;
        }
        {
            let mut inner = w.storage.inner.lock().unwrap();
            for b in add {
                inner.disk.insert(b.number().0, b);
            }
            let first = p.first.0;
            inner.disk.retain(|n, _| *n >= first);
            if let Some(l) = &p.last {
                for n in p.first.0..=l.number().0 {
                    if !inner.disk.contains_key(&n) {
                        w.honest = false;
                    }
                }
            }
            w.storage.report(&mut inner, p);
        }
    }

    fn state_for(&mut self, first: u64, last: Option<u64>) -> BlockStoreState {
        BlockStoreState { first: BlockNumber(first), last: last.map(|l| last_of(&self.chain.canonical(l))) }
    }

    /// `net` family: the node under test (fresh, durable state `{first, None}`) runs the real gossip network
    /// component and fetches from one real peer whose storage lies (`Liar`). Exercises
    /// gossip/runner.rs:197-224 (`block.number() == req.0`, then `queue_block`). The scenario ends when the
    /// connection was dropped after every programmed answer was served, or when as many blocks as there are
    /// answers were stored, or after 20 s.
    fn exec_net(&mut self, op: &Value, out: &mut Out) -> Value {
        use zksync_consensus_network::testonly as nt;
        if let Some(mut w) = self.world.take() {
            Self::stop_node(&self.rt, &mut w.node);
        }
        self.case_ops.clear();
        self.reported.clear();
        self.case_ops.push(op.clone());
        let first = op["first"].as_u64().unwrap();
        let have = (op["have"][0].as_u64().unwrap(), op["have"][1].as_u64().unwrap());
        let mut answers = BTreeMap::new();
        let mut wants: Vec<(u64, Block)> = vec![];
        for a in op["answers"].as_array().unwrap() {
            let want = a["want"].as_u64().unwrap();
            let d = Self::parse_desc(self.chain.g, a["n"].as_u64().unwrap(), &a["b"]);
            let b = self.chain.build(&d);
            answers.insert(want, b.clone());
            wants.push((want, b));
        }
        let target = first + wants.len() as u64;
        let p_b = self.state_for(have.0, Some(have.1));
        let storage = Arc::new(Storage {
            genesis: self.chain.setup.genesis.clone(),
            persisted: sync::watch::channel(BlockStoreState { first: BlockNumber(first), last: None }).0,
            gate: sync::watch::channel(Gate { credits: 1000, fail_next: false }).0,
            inner: Mutex::new(StorageInner { published: [first].into(), ..Default::default() }),
            auto: false,
        });
        let liar = Arc::new(Liar {
            genesis: self.chain.setup.genesis.clone(),
            persisted: sync::watch::channel(p_b).0,
            answers,
            served: Mutex::new(BTreeMap::new()),
        });
        let setup = self.chain.setup.clone();
        let seed = first ^ 0x5eed;
        let (q, outcome, served, blocks): (BlockStoreState, String, BTreeMap<u64, u64>, Vec<Block>) = self.rt.block_on(async {
            let root = ctx::test_root(&ctx::RealClock);
            let rng = &mut StdRng::seed_from_u64(seed);
            let (mgr_a, runner_a) = EngineManager::new(&root, Box::new(Iface(storage.clone())), time::Duration::seconds(1)).await.unwrap();
            let (mgr_b, _runner_b) = EngineManager::new(&root, Box::new(LiarIface(liar.clone())), time::Duration::seconds(1)).await.unwrap();
            let dummy = nt::new_configs(rng, &setup, 0).remove(0);
            let mut cfg_b = nt::new_fullnode(rng, &dummy);
            cfg_b.gossip.static_outbound.clear();
            let cfg_a = nt::new_fullnode(rng, &cfg_b);
            let b_key = cfg_b.gossip.key.public();
            let (inst_a, run_a) = nt::Instance::new(cfg_a, mgr_a.clone());
            let (_inst_b, run_b) = nt::Instance::new(cfg_b, mgr_b.clone());
            let mut outcome = String::from("timeout");
            let _: Result<(), ctx::Error> = scope::run!(&root, |ctx, s| async {
                s.spawn_bg(async {
                    let _ = runner_a.run(ctx).await;
                    Ok(())
                });
                s.spawn_bg(async {
                    let _ = run_a.run(ctx).await;
                    Ok(())
                });
                s.spawn_bg(async {
                    let _ = run_b.run(ctx).await;
                    Ok(())
                });
                let r = tokio::time::timeout(std::time::Duration::from_secs(20), async {
                    inst_a.wait_for_gossip_connections().await;
                    loop {
                        let all = {
                            let sv = liar.served.lock().unwrap();
                            liar.answers.keys().all(|k| sv.get(k).copied().unwrap_or(0) > 0)
                        };
                        if all || mgr_a.queued().next().0 >= target {
                            break;
                        }
                        tokio::time::sleep(std::time::Duration::from_millis(1)).await;
                    }
                    tokio::select! {
                        _ = inst_a.wait_for_gossip_disconnect(ctx, &b_key) => "disconnect",
                        _ = mgr_a.wait_until_queued(ctx, BlockNumber(target - 1)) => "stored",
                    }
                })
                .await;
                if let Ok(o) = r {
                    outcome = o.to_string();
                }
                Ok(())
            })
            .await;
            let q = mgr_a.queued();
            let mut blocks = vec![];
            if let Some(l) = &q.last {
                for n in q.first.0..=l.number().0 {
                    if let Ok(Some(b)) = mgr_a.get_block(&root, BlockNumber(n)).await {
                        blocks.push(b);
                    }
                }
            }
            let served = liar.served.lock().unwrap().clone();
            (q, outcome, served, blocks)
        });
        out.count(&format!("net={outcome}"));
        // monitors: whatever entered verifies, and was delivered for the number that was requested
        for b in &blocks {
            if !self.chain.independently_valid(b) {
                out.oracle_fail_ops("verified", &format!("a peer-supplied block that does not verify was stored: {}", self.ident(b)), op.clone(), &self.case_ops);
            }
            if !wants.iter().any(|(want, x)| x == b && *want == b.number().0) {
                out.oracle_fail_ops("peer-guard", &format!("block {} entered the store although no request for its number was answered with it", self.ident(b)), op.clone(), &self.case_ops);
            }
        }
        if outcome == "timeout" {
            out.oracle_fail_ops("net-timeout", "the fetch scenario neither stored the blocks nor dropped the connection within 20 s", op.clone(), &self.case_ops);
        }
        json!({"class": "net", "q": range_json(&q), "_outcome": outcome, "_served": served.iter().map(|(k, v)| json!([k, v])).collect::<Vec<_>>() })
    }

    /// `mt` family: eight submitter tasks and a side channel run in parallel on a multi-threaded runtime against a
    /// storage that makes every hand-off durable at once. The interleaving is up to the scheduler; the final state
    /// (ranges, which calls returned what, which are still parked) does not depend on it, and is what is compared.
    /// Quiescence is decided logically: every call has returned or is parked for a number above `queued.next`, and
    /// storage, store copy and queue agree on the head.
    fn exec_mt(&mut self, op: &Value, out: &mut Out) -> Value {
        if let Some(mut w) = self.world.take() {
            Self::stop_node(&self.rt, &mut w.node);
        }
        self.case_ops.clear();
        self.reported.clear();
        self.case_ops.push(op.clone());
        let first = op["first"].as_u64().unwrap();
        let last = op["last"].as_u64();
        let jump = op["jump"].as_u64();
        let p = self.state_for(first, last);
        let p_next = p.next().0;
        let mut disk = BTreeMap::new();
        if let Some(l) = last {
            for n in first..=l {
                disk.insert(n, self.chain.canonical(n));
            }
        }
        let mut jump_blocks = BTreeMap::new();
        if let Some(l) = jump {
            for n in p_next..=l {
                jump_blocks.insert(n, self.chain.canonical(n));
            }
        }
        // (id, src, want, block)
        let mut subs: Vec<(u64, String, i128, Block)> = vec![];
        for a in op["subs"].as_array().unwrap() {
            let n = a["n"].as_u64().unwrap();
            let d = Self::parse_desc(self.chain.g, n, &a["b"]);
            let b = self.chain.build(&d);
            subs.push((a["id"].as_u64().unwrap(), a["src"].as_str().unwrap_or("api").to_string(), n as i128 + a["dwant"].as_i64().unwrap_or(0) as i128, b));
        }
        let storage = Arc::new(Storage {
            genesis: self.chain.setup.genesis.clone(),
            persisted: sync::watch::channel(p).0,
            gate: sync::watch::channel(Gate::default()).0,
            inner: Mutex::new(StorageInner { disk, published: [p_next].into(), ..Default::default() }),
            auto: true,
        });
        let node = Self::start_node(&self.mt_rt, &storage).expect("EngineManager::new");
        let manager = node.manager.clone();
        let finished = node.finished.clone();
        let reg: Arc<Mutex<Vec<(u64, u64, tokio::task::JoinHandle<()>)>>> = Arc::new(Mutex::new(vec![]));
        let st = storage.clone();
        let reg2 = reg.clone();
        let timed_out = self.mt_rt.block_on(async move {
            let mut lanes: Vec<Vec<(u64, String, i128, Block)>> = (0..8).map(|_| vec![]).collect();
            for (i, s) in subs.into_iter().enumerate() {
                lanes[i % 8].push(s);
            }
            let mut tasks = vec![];
            for lane in lanes {
                let (manager, finished, reg) = (manager.clone(), finished.clone(), reg2.clone());
                tasks.push(tokio::spawn(async move {
                    for (id, src, want, block) in lane {
                        let (manager, finished) = (manager.clone(), finished.clone());
                        let n = block.number().0;
                        let h = tokio::spawn(async move {
                            let root = ctx::test_root(&ctx::RealClock);
                            let number = block.number();
                            if src == "peer" && number.0 as i128 != want {
                                finished.lock().unwrap().push((id, false));
                                return;
                            }
                            if manager.queue_block(&root, block).await.is_err() {
                                finished.lock().unwrap().push((id, false));
                                return;
                            }
                            if src == "consensus" && manager.wait_until_persisted(&root, number).await.is_err() {
                                return;
                            }
                            finished.lock().unwrap().push((id, true));
                        });
                        reg.lock().unwrap().push((id, n, h));
                        tokio::task::yield_now().await;
                    }
                }));
            }
            let st2 = st.clone();
            tasks.push(tokio::spawn(async move {
                if let Some(l) = jump {
                    for _ in 0..(l % 7) {
                        tokio::task::yield_now().await;
                    }
                    st2.jump_to(l, &jump_blocks);
                }
            }));
            for t in tasks {
                let _ = t.await;
            }
            let deadline = std::time::Instant::now() + std::time::Duration::from_secs(10);
            let mut stable = 0;
            loop {
                let qn = manager.queued().next().0;
                let reqs_ok = reg2.lock().unwrap().iter().all(|(_, n, h)| h.is_finished() || *n > qn);
                let sp = st.persisted.borrow().next().0;
                if reqs_ok && sp == qn && manager.persisted().next().0 == qn {
                    stable += 1;
                    if stable >= 5 {
                        return false;
                    }
                } else {
                    stable = 0;
                }
                if std::time::Instant::now() > deadline {
                    return true;
                }
                tokio::time::sleep(std::time::Duration::from_millis(1)).await;
            }
        });
        let mut node = node;
        for (id, _, h) in std::mem::take(&mut *reg.lock().unwrap()) {
            if !h.is_finished() {
                node.reqs.insert(id, h);
            }
        }
        self.world = Some(World { storage, node, racy: true, mt: true, honest: true, regress_pending: None });
        if timed_out {
            out.oracle_fail_ops("mt-timeout", "the concurrent case did not reach its quiescent state within 10 s", op.clone(), &self.case_ops);
        }
        self.monitors(out, op);
        let obs = {
            let w = self.world.as_ref().unwrap();
            let mut fin: Vec<(u64, bool)> = std::mem::take(&mut *w.node.finished.lock().unwrap());
            fin.sort();
            json!({
                "class": "mt",
                "q": range_json(&w.node.manager.queued()),
                "p": range_json(&w.node.manager.persisted()),
                "ep": range_json(&w.storage.persisted.borrow()),
                "fin": fin.iter().map(|(i, ok)| json!([i, ok])).collect::<Vec<_>>(),
                "live": w.node.reqs.len(),
                "dead": w.node.runner_result.lock().unwrap().is_some(),
                "_handoffs": w.storage.inner.lock().unwrap().handoffs.len(),
            })
        };
        let mut w = self.world.take().unwrap();
        Self::stop_node(&self.mt_rt, &mut w.node);
        out.count("mt-case");
        obs
    }

    fn select_chain(&mut self, g: u64) {
        if self.chain.g != g {
            let seed = self.seed;
            let new = self.chains.remove(&g).unwrap_or_else(|| Chain::new(seed, g));
            let old = std::mem::replace(&mut self.chain, new);
            self.chains.insert(old.g, old);
        }
    }

    fn exec_inner(&mut self, op: &Value, out: &mut Out) -> Value {
        if let Some(g) = op.get("gfirst").and_then(|g| g.as_u64()) {
            self.select_chain(g);
            out.count(&format!("gfirst={g}"));
        }
        let name = op["op"].as_str().unwrap_or("");
        out.count(&format!("op={name}"));
        let mut extra = serde_json::Map::new();
        if name == "net" {
            return self.exec_net(op, out);
        }
        if name == "mt" {
            return self.exec_mt(op, out);
        }
        if name == "init" {
            if let Some(mut w) = self.world.take() {
                Self::stop_node(&self.rt, &mut w.node);
            }
            self.case_ops.clear();
            self.reported.clear();
            self.case_ops.push(op.clone());
            let first = op["first"].as_u64().unwrap();
            let last = op["last"].as_u64();
            let p = self.state_for(first, last);
            let p_next = p.next().0;
            let mut disk = BTreeMap::new();
            if let Some(l) = last {
                for n in first..=l {
                    disk.insert(n, self.chain.canonical(n));
                }
            }
            let storage = Arc::new(Storage {
                genesis: self.chain.setup.genesis.clone(),
                persisted: sync::watch::channel(p).0,
                gate: sync::watch::channel(Gate { credits: op["credits"].as_u64().unwrap_or(0), fail_next: false }).0,
                inner: Mutex::new(StorageInner { disk, published: [p_next].into(), ..Default::default() }),
                auto: false,
            });
            let node = Self::start_node(&self.rt, &storage).expect("EngineManager::new");
            self.world = Some(World { storage, node, racy: op["racy"].as_bool().unwrap_or(false), mt: false, honest: true, regress_pending: None });
            self.quiesce();
            self.monitors(out, op);
            let mut v = self.snapshot(extra);
            v["class"] = json!("init");
            return v;
        }
        if self.world.is_none() {
            return json!({"bad_op": true});
        }
        self.case_ops.push(op.clone());
        match name {
            "submit" => {
                let base = self.world.as_ref().unwrap().node.manager.queued().next().0;
                match Self::resolve(base, op) {
                    None => {
                        extra.insert("skip".into(), json!(true));
                    }
                    Some(n) => {
                        let d = Self::parse_desc(self.chain.g, n, &op["b"]);
                        let block = self.chain.build(&d);
                        let id = op["id"].as_u64().unwrap();
                        let src = op["src"].as_str().unwrap_or("api").to_string();
                        out.count(&format!("src={src}"));
                        out.count(&format!(
                            "block={}",
                            if d.pre { if d.j { "pre" } else { "pre-badjust" } }
                            else if d.e != 0 { "epoch" } else if !d.p { "payload" } else if !d.g { "genesis" }
                            else if d.sl != NVALS { "signers-len" } else if d.s.len() < NVALS - 1 { "low-weight" }
                            else if !d.sg { "bad-sig" } else if d.s.len() < NVALS { "valid-5of6" } else { "valid" }
                        ));
                        let want = n as i128 + op["dwant"].as_i64().unwrap_or(0) as i128;
                        let block_valid = self.chain.independently_valid(&block);
                        let w = self.world.as_mut().unwrap();
                        // two calls waiting for the same number with different valid blocks race for it: which one
                        // wins is the scheduler's choice, so from here on identities are diagnostics in this case
                        if block_valid
                            && block.number() >= w.node.manager.queued().next()
                            && w.node.req_blocks.values().any(|x| x.number() == block.number() && x != &block)
                        {
                            w.racy = true;
                            out.count("dynamic-racy");
                        }
                        w.node.req_blocks.insert(id, block.clone());
                        let manager = w.node.manager.clone();
                        let finished = w.node.finished.clone();
                        let _guard = self.rt.enter();
                        let h = tokio::spawn(async move {
                            let root = ctx::test_root(&ctx::RealClock);
                            let number = block.number();
                            // gossip/runner.rs:211-218 — the guard in front of `queue_block` on the peer path
                            if src == "peer" && number.0 as i128 != want {
                                finished.lock().unwrap().push((id, false));
                                return;
                            }
                            let r = manager.queue_block(&root, block).await;
                            if r.is_err() {
                                finished.lock().unwrap().push((id, false));
                                return;
                            }
                            if src == "consensus" {
                                // bft/v2_chonky_bft/block.rs:31-43 — save_block waits until the block is durable
                                if manager.wait_until_persisted(&root, number).await.is_err() {
                                    return;
                                }
                            }
                            finished.lock().unwrap().push((id, true));
                        });
                        w.node.reqs.insert(id, h);
                        extra.insert("n".into(), json!(n));
                    }
                }
            }
            "cancel" => {
                let id = op["id"].as_u64().unwrap();
                let w = self.world.as_mut().unwrap();
                if let Some(h) = w.node.reqs.remove(&id) {
                    h.abort();
                }
            }
            "credit" => {
                let k = op["k"].as_u64().unwrap();
                self.world.as_ref().unwrap().storage.gate.send_modify(|g| g.credits += k);
            }
            "fail_next" => {
                self.world.as_ref().unwrap().storage.gate.send_modify(|g| g.fail_next = true);
            }
            "complete" => {
                // the storage makes up to k accepted hand-offs durable (in_memory::Engine rule), then reports
                let k = op["k"].as_u64().unwrap();
                let w = self.world.as_mut().unwrap();
                let mut p = w.storage.persisted.borrow().clone();
                let mut changed = false;
                {
                    let mut inner = w.storage.inner.lock().unwrap();
                    for _ in 0..k {
                        let Some(b) = inner.inbox.pop_front() else { break };
                        let want = p.next();
                        if b.number() < want {
                            continue;
                        }
                        if b.number() > want {
                            inner.gap_seen = Some((b.number().0, want.0));
                            continue;
                        }
                        p.last = Some(last_of(&b));
                        inner.disk.insert(b.number().0, b);
                        changed = true;
                    }
                }
                if changed {
                    let mut inner = w.storage.inner.lock().unwrap();
                    w.storage.report(&mut inner, p);
                }
            }
            "jump" => {
                let by = op["by"].as_u64().unwrap();
                if by > 0 {
                    let cur = self.world.as_ref().unwrap().storage.persisted.borrow().clone();
                    let next = cur.next().0;
                    let add: Vec<Block> = (next..next + by).map(|n| self.chain.canonical(n)).collect();
                    let p = self.state_for(cur.first.0, Some(next + by - 1));
                    self.publish(p, add, true);
                }
            }
            "prune" => {
                let by = op["by"].as_u64().unwrap();
                let cur = self.world.as_ref().unwrap().storage.persisted.borrow().clone();
                let f = cur.first.0 + by;
                if cur.first.0 < f {
                    let p = BlockStoreState { first: BlockNumber(f), last: if cur.next().0 <= f { None } else { cur.last.clone() } };
                    self.publish(p, vec![], true);
                }
            }
            "report" => {
                let first = op["first"].as_u64().unwrap();
                let last = op["last"].as_u64();
                let honest = op["honest"].as_bool().unwrap_or(true);
                let p = self.state_for(first, last);
                let add: Vec<Block> = match (honest, last) {
                    (true, Some(l)) if l >= first => (first..=l).map(|n| self.chain.canonical(n)).collect(),
                    _ => vec![],
                };
                self.publish(p, add, honest);
            }
            "restart" => {
                let ok = self.world.as_ref().unwrap().storage.persisted.borrow().verify().is_ok();
                if ok {
                    let mut w = self.world.take().unwrap();
                    Self::stop_node(&self.rt, &mut w.node);
                    w.node = Self::start_node(&self.rt, &w.storage).expect("EngineManager::new on a verified state");
                    w.regress_pending = None;
                    self.world = Some(w);
                } else {
                    // `EngineManager::new` must refuse; the old node keeps running
                    let storage = self.world.as_ref().unwrap().storage.clone();
                    let refused = self.rt.block_on(async {
                        let root = ctx::test_root(&ctx::RealClock);
                        EngineManager::new(&root, Box::new(Iface(storage)), time::Duration::seconds(1)).await.is_err()
                    });
                    if !refused {
                        out.oracle_fail_ops("restart", "EngineManager::new accepted an unverifiable durable state", op.clone(), &self.case_ops);
                    }
                }
                extra.insert("restarted".into(), json!(ok));
            }
            "get" => {
                let base = self.world.as_ref().unwrap().node.manager.queued().next().0;
                match Self::resolve(base, op) {
                    Some(n) => {
                        let g = self.get_json(n);
                        let racy = self.world.as_ref().unwrap().racy;
                        extra.insert("gs".into(), json!([g[0], g[1]]));
                        extra.insert(if racy { "_g" } else { "g" }.into(), g);
                    }
                    None => {
                        extra.insert("skip".into(), json!(true));
                    }
                }
            }
            "scan" => {
                let q = self.world.as_ref().unwrap().node.manager.queued();
                let lo = q.first.0.saturating_sub(1);
                let hi = q.next().0 + 2;
                let rows: Vec<Value> = (lo..hi).map(|n| self.get_json(n)).collect();
                let racy = self.world.as_ref().unwrap().racy;
                extra.insert("scans".into(), json!(rows.iter().map(|g| json!([g[0], g[1]])).collect::<Vec<_>>()));
                extra.insert(if racy { "_scan" } else { "scan" }.into(), json!(rows));
            }
            "tick" => {}
            _ => return json!({"bad_op": true}),
        }
        self.quiesce();
        self.monitors(out, op);
        let mut v = self.snapshot(extra);
        // observation class (generator statistics; also compared with the model)
        let mut class = match name {
            "submit" => {
                let id = op["id"].as_u64().unwrap_or(0);
                let hit = v["fin"].as_array().and_then(|f| f.iter().find(|x| x[0].as_u64() == Some(id)).map(|x| x[1].as_bool().unwrap_or(false)));
                match (v.get("skip").is_some(), hit) {
                    (true, _) => "submit-skip".to_string(),
                    (_, Some(true)) => "submit-done".to_string(),
                    (_, Some(false)) => "submit-rejected".to_string(),
                    (_, None) => "submit-parked".to_string(),
                }
            }
            "get" => match v.get("gs") {
                Some(g) => format!("get-{}", g[1].as_str().unwrap_or("?")),
                None => "get-skip".to_string(),
            },
            other => other.to_string(),
        };
        if v["dead"].as_bool() == Some(true) {
            class.push_str("+dead");
        }
        v["class"] = json!(class);
        v
    }
}

// ------------------------------------------------------------------------------------------------ generator

struct Gen {
    rng: StdRng,
    ops: Vec<Value>,
    next_id: u64,
    /// `genesis.first_block` of the cases generated next
    gfirst: u64,
}

fn valid_b(c: u64) -> Value {
    json!({"k":"a","c":c,"e":0,"g":true,"p":true,"sl":NVALS,"s":(0..NVALS).collect::<Vec<_>>(),"sg":true,"j":true})
}

fn with(mut b: Value, k: &str, v: Value) -> Value {
    b[k] = v;
    b
}

impl Gen {
    fn id(&mut self) -> u64 {
        self.next_id += 1;
        self.next_id
    }
    fn init(&mut self, first: u64, last: Option<u64>, credits: u64, racy: bool) {
        self.ops.push(json!({"op":"init","reset":true,"gfirst":self.gfirst,"weights":vec![1u64; NVALS],"first":first,"last":last,"credits":credits,"racy":racy}));
    }
    fn submit(&mut self, src: &str, rel: i64, b: Value) -> u64 {
        let id = self.id();
        self.ops.push(json!({"op":"submit","id":id,"src":src,"rel":rel,"b":b}));
        id
    }
    fn submit_abs(&mut self, src: &str, n: u64, b: Value) -> u64 {
        let id = self.id();
        self.ops.push(json!({"op":"submit","id":id,"src":src,"n":n,"b":b}));
        id
    }
    fn op(&mut self, v: Value) {
        self.ops.push(v);
    }
    fn src(&mut self) -> &'static str {
        *["api", "api", "consensus", "peer"].choose(&mut self.rng).unwrap()
    }
    /// a damaged block (each class is rejected by one check of `queue_block`) or a valid variant
    fn defect(&mut self, c: u64) -> Value {
        let b = valid_b(c);
        match self.rng.gen_range(0..12) {
            0 => with(b, "j", json!(false)),
            1 => with(b, "k", json!("p")),
            2 => with(b, "k", json!("f")),
            3 => with(with(b, "e", json!(1)), "sg", json!(false)),
            4 => with(with(b, "g", json!(false)), "sg", json!(false)),
            5 => with(b, "p", json!(false)),
            6 => with(with(b, "sl", json!(5)), "s", json!([0, 1, 2, 3, 4])),
            7 => with(b, "sl", json!(7)),
            8 => with(b, "s", json!([0, 1, 2, 3])),
            9 => with(b, "s", json!([0, 2, 3, 4, 5])),
            10 => with(b, "sg", json!(false)),
            _ => with(with(b, "s", json!([1, 2, 3, 4, 5])), "sg", json!(false)),
        }
    }
    /// a damaged block that is rejected whatever its number (so it can be offered for a number that is not
    /// `queued.next` yet without racing against the valid block parked for the same number)
    fn defect_rejected(&mut self) -> Value {
        let b = valid_b(0);
        match self.rng.gen_range(0..7) {
            0 => with(with(b, "e", json!(1)), "sg", json!(false)),
            1 => with(with(b, "g", json!(false)), "sg", json!(false)),
            2 => with(with(b, "k", json!("f")), "p", json!(false)),
            3 => with(with(b, "k", json!("f")), "sl", json!(7)),
            4 => with(with(b, "k", json!("f")), "s", json!([0, 1, 2, 3])),
            5 => with(with(b, "k", json!("f")), "sg", json!(false)),
            _ => with(with(with(b, "k", json!("f")), "s", json!([1, 2, 3, 4, 5])), "sg", json!(false)),
        }
    }
    fn start(&mut self, racy: bool) {
        let (first, last) = match self.rng.gen_range(0..8) {
            0 => (0, None),
            1 => (self.gfirst.saturating_sub(1), None),
            2 => (self.gfirst, None),
            3 => (self.rng.gen_range(0..40), None),
            4 => (0, Some(self.rng.gen_range(0..12))),
            5 => {
                let f = self.rng.gen_range(0..30);
                (f, Some(f + self.rng.gen_range(0..20)))
            }
            6 => (self.gfirst, Some(self.gfirst + self.rng.gen_range(0..5))),
            _ => (self.rng.gen_range(0..6), None),
        };
        let credits = *[0u64, 0, 1, 3, 1000].choose(&mut self.rng).unwrap();
        self.init(first, last, credits, racy);
    }

    // ---- directed families ------------------------------------------------------------------------
    fn fam_in_order(&mut self) {
        self.start(false);
        let n = self.rng.gen_range(3..25);
        for _ in 0..n {
            let s = self.src();
            self.submit(s, 0, valid_b(0));
            match self.rng.gen_range(0..6) {
                0 => { let r0 = self.rng.gen_range(1..4); self.op(json!({"op":"credit","k":r0})); },
                1 => { let r0 = self.rng.gen_range(1..4); self.op(json!({"op":"complete","k":r0})); },
                2 => { let r0 = self.rng.gen_range(-3..2); self.op(json!({"op":"get","rel":r0})); },
                _ => {}
            }
        }
        self.op(json!({"op":"credit","k":100}));
        self.op(json!({"op":"complete","k":100}));
        self.op(json!({"op":"scan"}));
    }
    fn fam_out_of_order(&mut self) {
        self.start(false);
        let w = self.rng.gen_range(2..10) as i64;
        let mut rels: Vec<i64> = (1..=w).collect();
        rels.shuffle(&mut self.rng);
        for (i, r) in rels.iter().enumerate() {
            let s = self.src();
            self.submit(s, *r, valid_b(0));
            if i % 3 == 2 && self.rng.gen_bool(0.5) {
                // a duplicate of a parked request
                self.submit("peer", *r, valid_b(0));
            }
        }
        self.op(json!({"op":"scan"}));
        self.submit("api", 0, valid_b(0));
        self.op(json!({"op":"scan"}));
        self.op(json!({"op":"credit","k":100}));
        { let r0 = self.rng.gen_range(0..12); self.op(json!({"op":"complete","k":r0})); }
        self.op(json!({"op":"scan"}));
    }
    fn fam_substitute(&mut self) {
        // a different valid block for a number that is already taken must never replace it
        self.start(false);
        for _ in 0..self.rng.gen_range(2..8) {
            self.submit("api", 0, valid_b(0));
        }
        for _ in 0..self.rng.gen_range(2..8) {
            let rel = -self.rng.gen_range(1..6);
            let b = if self.rng.gen_bool(0.7) { valid_b(1) } else { with(valid_b(0), "s", json!([0, 1, 2, 3, 4])) };
            let s = self.src();
            self.submit(s, rel, b);
            self.op(json!({"op":"get","rel":rel}));
        }
        self.submit("api", 0, valid_b(1));
        self.submit("api", -1, valid_b(0));
        self.op(json!({"op":"scan"}));
        self.op(json!({"op":"credit","k":100}));
        self.op(json!({"op":"complete","k":100}));
        self.op(json!({"op":"scan"}));
    }
    fn fam_invalid(&mut self) {
        // every damaged block is offered exactly where a valid one would be appended (rel 0) and parked (rel 1)
        self.start(false);
        for _ in 0..self.rng.gen_range(4..14) {
            let rel = *[0i64, 0, 0, 1, -1].choose(&mut self.rng).unwrap();
            let c = self.rng.gen_range(0..2);
            let b = if rel >= 1 { self.defect_rejected() } else { self.defect(c) };
            let s = self.src();
            self.submit(s, rel, b);
            if self.rng.gen_bool(0.4) {
                self.submit("api", 0, valid_b(0));
            }
            if self.rng.gen_bool(0.3) {
                self.op(json!({"op":"get","rel":-1}));
            }
        }
        self.op(json!({"op":"scan"}));
    }
    fn fam_pregenesis(&mut self) {
        self.init(0, None, 1000, false);
        // forced kinds around genesis.first_block
        for n in 0..self.gfirst + 2 {
            let k = *["a", "p", "f"].choose(&mut self.rng).unwrap();
            let j = self.rng.gen_bool(0.8);
            let b = with(with(valid_b(0), "k", json!(k)), "j", json!(j));
            self.submit_abs("peer", n, b);
            self.submit_abs("api", n, valid_b(0));
        }
        self.op(json!({"op":"scan"}));
        self.op(json!({"op":"complete","k":100}));
        self.op(json!({"op":"scan"}));
    }
    fn fam_lag_capacity(&mut self, cap: u64) {
        // storage lags: more than CACHE_CAPACITY blocks wait in memory; then persistence catches up step by step
        let first = self.rng.gen_range(0..5);
        let credits = *[0u64, 5, 1000].choose(&mut self.rng).unwrap();
        self.init(first, None, credits, false);
        let total = cap + self.rng.gen_range(2..30);
        for i in 0..total {
            self.submit(if i % 7 == 0 { "consensus" } else { "api" }, 0, valid_b(0));
            if i + 3 >= cap && i <= cap + 3 {
                self.op(json!({"op":"get","n":first}));
            }
        }
        self.op(json!({"op":"scan"}));
        self.op(json!({"op":"credit","k":1000}));
        self.op(json!({"op":"get","n":first}));
        for _ in 0..self.rng.gen_range(3..8) {
            { let r0 = self.rng.gen_range(1..40); self.op(json!({"op":"complete","k":r0})); }
            self.op(json!({"op":"get","n":first}));
            { let r0 = self.rng.gen_range(0..total); self.op(json!({"op":"get","n":first + r0})); }
            if self.rng.gen_bool(0.5) {
                self.submit("api", 0, valid_b(0));
            }
        }
        self.op(json!({"op":"scan"}));
        self.op(json!({"op":"complete","k":1000}));
        self.submit("api", 0, valid_b(0));
        self.op(json!({"op":"scan"}));
    }
    fn fam_capacity_boundary(&mut self, cap: u64) {
        // exactly cap-1, cap, cap+1 blocks in memory with the durable head just before / at / after the first
        let first = self.rng.gen_range(0..4);
        self.init(first, None, 1000, false);
        let total = cap + 2;
        let done = *[0u64, 1, 2, cap - 1, cap, cap + 1].choose(&mut self.rng).unwrap();
        for i in 0..total {
            self.submit("api", 0, valid_b(0));
            if i + 1 == cap - 1 || i + 1 == cap || i + 1 == cap + 1 {
                if i + 1 == cap {
                    self.op(json!({"op":"complete","k":done}));
                }
                self.op(json!({"op":"get","n":first}));
                self.op(json!({"op":"get","n":first + 1}));
                self.op(json!({"op":"get","n":first + 2}));
            }
        }
        self.op(json!({"op":"scan"}));
        self.op(json!({"op":"complete","k":1}));
        self.op(json!({"op":"scan"}));
    }
    fn fam_overtake(&mut self) {
        // a side channel makes the storage overtake the queue while requests are parked on both sides of the new head
        self.start(false);
        for _ in 0..self.rng.gen_range(0..6) {
            self.submit("api", 0, valid_b(0));
        }
        let by = self.rng.gen_range(1..12);
        for r in [1i64, 2, by as i64 - 1, by as i64, by as i64 + 1, by as i64 + 2] {
            if r >= 1 && self.rng.gen_bool(0.7) {
                let s = self.src();
                self.submit(s, r, valid_b(0));
            }
        }
        if self.rng.gen_bool(0.5) {
            { let r0 = self.rng.gen_range(0..4); self.op(json!({"op":"complete","k":r0})); }
        }
        { let r0 = self.rng.gen_range(0..8); self.op(json!({"op":"jump","by":by + r0})); }
        self.op(json!({"op":"scan"}));
        self.submit("api", 0, valid_b(0));
        self.submit("api", 1, valid_b(0));
        self.op(json!({"op":"credit","k":50}));
        self.op(json!({"op":"complete","k":50}));
        self.submit("api", 0, valid_b(0));
        self.op(json!({"op":"scan"}));
    }
    fn fam_prune(&mut self) {
        self.start(false);
        self.op(json!({"op":"credit","k":1000}));
        for _ in 0..self.rng.gen_range(3..15) {
            self.submit("api", 0, valid_b(0));
        }
        { let r0 = self.rng.gen_range(0..15); self.op(json!({"op":"complete","k":r0})); }
        for _ in 0..self.rng.gen_range(1..4) {
            { let r0 = self.rng.gen_range(1..12); self.op(json!({"op":"prune","by":r0})); }
            self.op(json!({"op":"scan"}));
            self.submit("api", 0, valid_b(0));
            { let r0 = self.rng.gen_range(0..4); self.op(json!({"op":"complete","k":r0})); }
        }
        self.op(json!({"op":"scan"}));
    }
    fn fam_regress(&mut self) {
        self.start(false);
        self.op(json!({"op":"credit","k":1000}));
        for _ in 0..self.rng.gen_range(2..8) {
            self.submit("api", 0, valid_b(0));
        }
        { let r0 = self.rng.gen_range(1..8); self.op(json!({"op":"complete","k":r0})); }
        let f = self.rng.gen_range(0..3);
        match self.rng.gen_range(0..3) {
            0 => self.op(json!({"op":"report","first":f,"last":Value::Null,"honest":true})),
            1 => self.op(json!({"op":"report","first":0,"last":0,"honest":true})),
            _ => self.op(json!({"op":"report","first":f,"last":f,"honest":true})),
        }
        // the store keeps answering and accepting after the runner stopped
        self.submit("api", 0, valid_b(0));
        self.submit("api", 0, valid_b(0));
        self.op(json!({"op":"complete","k":3}));
        self.op(json!({"op":"scan"}));
        if self.rng.gen_bool(0.5) {
            self.op(json!({"op":"restart"}));
            self.submit("api", 0, valid_b(0));
            self.op(json!({"op":"scan"}));
        }
    }
    fn fam_reports(&mut self) {
        // arbitrary (also ill-formed or dishonest) reports
        self.start(false);
        self.op(json!({"op":"credit","k":1000}));
        for _ in 0..self.rng.gen_range(2..10) {
            self.submit("api", 0, valid_b(0));
        }
        for _ in 0..self.rng.gen_range(1..5) {
            let first = self.rng.gen_range(0..40);
            let last = if self.rng.gen_bool(0.3) { Value::Null } else { json!(self.rng.gen_range(0..50)) };
            { let r0 = self.rng.gen_bool(0.7); self.op(json!({"op":"report","first":first,"last":last,"honest":r0})); }
            self.submit("api", 0, valid_b(0));
            self.submit("api", 1, valid_b(0));
            if self.rng.gen_bool(0.3) {
                self.op(json!({"op":"restart"}));
            }
            self.op(json!({"op":"scan"}));
        }
        self.op(json!({"op":"tick"}));
    }
    fn fam_restart(&mut self) {
        self.start(false);
        for _ in 0..self.rng.gen_range(1..4) {
            for _ in 0..self.rng.gen_range(1..8) {
                let s = self.src();
                self.submit(s, 0, valid_b(0));
            }
            self.submit("api", 2, valid_b(0));
            { let r0 = self.rng.gen_range(0..6); self.op(json!({"op":"credit","k":r0})); }
            { let r0 = self.rng.gen_range(0..6); self.op(json!({"op":"complete","k":r0})); }
            self.op(json!({"op":"restart"}));
            self.op(json!({"op":"scan"}));
            self.submit("api", 0, valid_b(0));
        }
        self.op(json!({"op":"credit","k":100}));
        self.op(json!({"op":"complete","k":100}));
        self.op(json!({"op":"scan"}));
    }
    fn fam_fail_and_cancel(&mut self) {
        self.start(false);
        let a = self.submit("api", 2, valid_b(0));
        let b = self.submit("peer", 1, valid_b(0));
        self.submit("api", 3, valid_b(0));
        { let r0 = self.rng.gen_bool(0.5); self.op(json!({"op":"cancel","id":if r0 { a } else { b }})); }
        self.submit("api", 0, valid_b(0));
        self.op(json!({"op":"scan"}));
        self.submit("api", 0, valid_b(0));
        self.op(json!({"op":"fail_next"}));
        self.op(json!({"op":"credit","k":10}));
        self.submit("api", 0, valid_b(0));
        self.submit("consensus", 0, valid_b(0));
        self.op(json!({"op":"complete","k":10}));
        self.op(json!({"op":"scan"}));
    }
    fn fam_peer_guard(&mut self) {
        self.start(false);
        for _ in 0..self.rng.gen_range(3..10) {
            let rel = self.rng.gen_range(-1..3);
            let dwant = *[0i64, 0, 1, -1, 2].choose(&mut self.rng).unwrap();
            let id = self.id();
            self.op(json!({"op":"submit","id":id,"src":"peer","rel":rel,"dwant":dwant,"b":valid_b(0)}));
            if self.rng.gen_bool(0.3) {
                self.submit("peer", 0, valid_b(0));
            }
        }
        self.op(json!({"op":"scan"}));
    }
    fn fam_net(&mut self, variant: u64) {
        // the peer path through the real gossip network (see `exec_net`)
        let f = self.gfirst + self.rng.gen_range(0..20);
        let ws = vec![1u64; NVALS];
        let v = match variant % 4 {
            // the peer never answers `f` and answers `f+1` with the (valid, appendable) block `f`
            0 => json!({"op":"net","reset":true,"gfirst":self.gfirst,"weights":ws,"first":f,"have":[f, f + 1],
                        "answers":[{"want":f + 1,"n":f,"b":valid_b(0)}]}),
            // a block with the right number and a bad certificate
            1 => json!({"op":"net","reset":true,"gfirst":self.gfirst,"weights":ws,"first":f,"have":[f, f],
                        "answers":[{"want":f,"n":f,"b":with(valid_b(0), "sg", json!(false))}]}),
            // honest peer
            2 => json!({"op":"net","reset":true,"gfirst":self.gfirst,"weights":ws,"first":f,"have":[f, f + 1],
                        "answers":[{"want":f,"n":f,"b":valid_b(0)},{"want":f + 1,"n":f + 1,"b":valid_b(0)}]}),
            // low-weight certificate with the right number
            _ => json!({"op":"net","reset":true,"gfirst":self.gfirst,"weights":ws,"first":f,"have":[f, f],
                        "answers":[{"want":f,"n":f,"b":with(valid_b(0), "s", json!([0, 1, 2, 3]))}]}),
        };
        self.op(v);
    }
    fn fam_mt(&mut self) {
        // concurrent submitters (see `exec_mt`): valid blocks of two chains for a window of numbers, shuffled, with
        // duplicates, conflicting blocks, damaged blocks, wrong-number peer answers and numbers beyond a gap
        let first = self.rng.gen_range(0..12);
        let last = if self.rng.gen_bool(0.3) { Some(first + self.rng.gen_range(0..4)) } else { None };
        let next = last.map(|l| l + 1).unwrap_or(first);
        let width = self.rng.gen_range(4..40);
        let gap = if self.rng.gen_bool(0.5) { Some(next + self.rng.gen_range(1..width)) } else { None };
        let mut subs: Vec<Value> = vec![];
        for n in next..next + width {
            if Some(n) == gap {
                continue;
            }
            for _ in 0..self.rng.gen_range(1..4) {
                let c = self.rng.gen_range(0..2);
                let src = self.src();
                let id = self.id();
                subs.push(json!({"id":id,"src":src,"n":n,"b":valid_b(c)}));
            }
            if self.rng.gen_bool(0.2) {
                let b = self.defect(0);
                let id = self.id();
                subs.push(json!({"id":id,"src":"peer","n":n,"b":b}));
            }
            if self.rng.gen_bool(0.1) {
                let id = self.id();
                subs.push(json!({"id":id,"src":"peer","n":n,"dwant":1,"b":valid_b(0)}));
            }
        }
        subs.shuffle(&mut self.rng);
        let jump = match self.rng.gen_range(0..3) {
            0 => Value::Null,
            1 => json!(next + self.rng.gen_range(0..width)),
            _ => gap.map(|g| json!(g + self.rng.gen_range(0..3))).unwrap_or(Value::Null),
        };
        self.op(json!({"op":"mt","reset":true,"gfirst":self.gfirst,"weights":vec![1u64; NVALS],"first":first,"last":last,"subs":subs,"jump":jump}));
    }
    fn fam_racy(&mut self) {
        // conflicting valid blocks parked for the same number: whichever wins, the structure is the same
        self.start(true);
        let w = self.rng.gen_range(1..5) as i64;
        let mut subs: Vec<(i64, u64)> = vec![];
        for r in 1..=w {
            subs.push((r, 0));
            subs.push((r, 1));
            if self.rng.gen_bool(0.3) {
                subs.push((r, 2));
            }
        }
        subs.shuffle(&mut self.rng);
        for (r, c) in subs {
            let s = self.src();
            self.submit(s, r, valid_b(c));
        }
        self.submit("api", 0, valid_b(0));
        self.op(json!({"op":"scan"}));
        self.op(json!({"op":"credit","k":100}));
        self.op(json!({"op":"complete","k":100}));
        self.op(json!({"op":"scan"}));
        self.submit("api", -1, valid_b(1));
        self.op(json!({"op":"scan"}));
    }
    fn fam_random(&mut self) {
        self.start(false);
        let len = self.rng.gen_range(10..60);
        for _ in 0..len {
            match self.rng.gen_range(0..100) {
                0..=34 => {
                    let s = self.src();
                    self.submit(s, 0, valid_b(0));
                }
                35..=44 => {
                    let s = self.src();
                    let r = self.rng.gen_range(1..5);
                    self.submit(s, r, valid_b(0));
                }
                45..=52 => {
                    let s = self.src();
                    let r = self.rng.gen_range(-4..1);
                    let c = self.rng.gen_range(0..2);
                    self.submit(s, r, valid_b(c));
                }
                53..=60 => {
                    let s = self.src();
                    let r = self.rng.gen_range(-1..2);
                    let b = if r >= 1 { self.defect_rejected() } else { self.defect(0) };
                    self.submit(s, r, b);
                }
                61..=68 => { let r0 = self.rng.gen_range(1..6); self.op(json!({"op":"credit","k":r0})); },
                69..=78 => { let r0 = self.rng.gen_range(1..6); self.op(json!({"op":"complete","k":r0})); },
                79..=82 => { let r0 = self.rng.gen_range(1..8); self.op(json!({"op":"jump","by":r0})); },
                83..=85 => { let r0 = self.rng.gen_range(1..6); self.op(json!({"op":"prune","by":r0})); },
                86..=87 => self.op(json!({"op":"restart"})),
                88..=93 => { let r0 = self.rng.gen_range(-8..3); self.op(json!({"op":"get","rel":r0})); },
                94..=96 => self.op(json!({"op":"scan"})),
                97 => self.op(json!({"op":"fail_next"})),
                _ => self.op(json!({"op":"tick"})),
            }
        }
        self.op(json!({"op":"scan"}));
    }
}

impl Prop for C08 {
    fn gen(&mut self, opts: &Opts) -> Vec<Value> {
        let mut g = Gen { rng: opts.rng(), ops: vec![], next_id: 0, gfirst: GFIRST };
        let cap = self.capacity;
        // every directed family once, then a weighted mix until the budget is used
        for gf in [GFIRST, 0, 1] {
            g.gfirst = gf;
            g.fam_pregenesis();
        }
        g.gfirst = GFIRST;
        for v in 0..4 {
            g.fam_net(v);
        }
        for _ in 0..(if opts.thorough { 40 } else { 6 }) {
            g.fam_mt();
        }
        g.fam_capacity_boundary(cap);
        g.fam_lag_capacity(cap);
        let mut round = 0u64;
        while g.ops.len() < opts.n {
            // genesis.first_block of the case: mostly 3, also the boundary values 0 (no pre-genesis block at all) and 1
            g.gfirst = *[GFIRST, GFIRST, GFIRST, 0, 1, GFIRST, 0, 7].choose(&mut g.rng).unwrap();
            match round % 16 {
                0 => g.fam_in_order(),
                1 => g.fam_out_of_order(),
                2 => g.fam_substitute(),
                3 => g.fam_invalid(),
                4 => g.fam_overtake(),
                5 => g.fam_prune(),
                6 => g.fam_regress(),
                7 => g.fam_restart(),
                8 => g.fam_fail_and_cancel(),
                9 => g.fam_peer_guard(),
                10 => g.fam_racy(),
                11 => g.fam_reports(),
                12 => g.fam_pregenesis(),
                13 => {
                    if round % 64 == 13 {
                        g.fam_lag_capacity(cap)
                    } else if round % 64 == 29 {
                        g.fam_capacity_boundary(cap)
                    } else {
                        g.fam_random()
                    }
                }
                15 if round % 128 == 15 => g.fam_net(round / 128),
                15 if round % 128 == 79 => g.fam_mt(),
                _ => g.fam_random(),
            }
            round += 1;
        }
        g.ops
    }

    fn exec(&mut self, op: &Value, out: &mut Out) -> Value {
        // the manager's own tasks run inside `block_on`; a panic anywhere in the code under test is an observation
        match catch(|| self.exec_inner(op, out)) {
            Ok(v) => v,
            Err(site) => {
                out.oracle_fail_ops(&site, "the block store panicked", op.clone(), &self.case_ops);
                self.world = None;
                json!({"panic": site})
            }
        }
    }

    fn extra_stats(&self) -> Value {
        json!({"blocks_built": self.chain.built.len(), "capacity": self.capacity})
    }
}

fn main() {
    let args: Vec<String> = std::env::args().collect();
    let opts = Opts::parse(&args[1..]);
    vharness::main_for(&mut C08::new(opts.seed));
}
