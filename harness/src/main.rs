//! vharness <property> --seed S --n N --out DIR [--tier quick|thorough]
//!
//! Generates operations from a single PRNG state, executes them on the real code (in-process) and writes
//!   DIR/ops.jsonl    one operation per line (input of the Lean model driver `vmodel`)
//!   DIR/impl.jsonl   the implementation's canonicalised observation per operation
//!   DIR/oracle.jsonl property-monitor failures found on the implementation alone (S)
//!   DIR/stats.json   generator statistics (operation mix, outcome classes, sizes)
mod util;
mod c07;

fn main() {
    let args: Vec<String> = std::env::args().collect();
    if args.len() < 2 {
        eprintln!("usage: vharness <property> --seed S --n N --out DIR");
        std::process::exit(2);
    }
    let opts = util::Opts::parse(&args[2..]);
    // Panics inside the code under test are observations, not harness failures; keep stderr quiet.
    std::panic::set_hook(Box::new(|info| {
        util::LAST_PANIC.with(|p| *p.borrow_mut() = Some(util::panic_site(info)));
    }));
    let res = match args[1].as_str() {
        "c07" => util::drive(&mut c07::C07, &opts),
        other => {
            eprintln!("unknown property {other}");
            std::process::exit(2);
        }
    };
    if let Err(e) = res {
        eprintln!("harness error: {e:#}");
        std::process::exit(3);
    }
}
